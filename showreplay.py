#!/usr/bin/env python3
# developer aid: print a replay file compactly
import json,sys,glob
files = sys.argv[1:] or glob.glob('/verif/replays/found/*.json')
for f in files:
    d=json.load(open(f)); c=d['case']
    print('==',f)
    if isinstance(c,dict) and 'ops' in c:
        print(c.get('layout'), 'now=',c.get('now'))
        for op in c['ops']:
            op.pop('windows',None); print('  ',json.dumps(op))
    else:
        s=json.dumps(c)
        print(s[:3000])
    for x in d.get('findings',[])[:6]: print('  F:',x[:600])
