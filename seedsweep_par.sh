#!/bin/bash
# developer aid: every seeded change against its own property's check, each in a scratch copy of /repo + /verif
# (trial.sh), several at a time; /repo itself is not touched. usage: seedsweep_par.sh [tier] [parallelism]
tier=${1:-quick}; par=${2:-5}
ls -d /verif/seeded/C*/ | while read d; do
  n=$(basename $d); id=${n:0:3}
  echo "WIDTH=200 /verif/trial.sh sw$n $d/patch.diff $tier $id 2>&1 | sed 's/^sw//'"
done | xargs -P $par -I{} sh -c '{}'
