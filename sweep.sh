#!/bin/bash
# developer aid: run every check's quick (or thorough) tier at several VERIF_SEED values; report anything but OK.
tier=${TIER:-quick}
for seed in ${SEEDS:-1 2 3 7 12345}; do
  for id in C01 C02 C03 C04 C05 C06 C07 C08 C09 C10 C11 C12 C13 C14 C15 C16 C17 C18 C19 C20; do
    out=$(VERIF_SEED=$seed ./check $id --tier $tier 2>&1); rc=$?
    echo "seed=$seed $id rc=$rc $(echo "$out" | tail -1 | cut -c1-200)"
    if [ $rc -ne 0 ]; then echo "$out" | tail -20 | cut -c1-600; fi
  done
done
