#!/usr/bin/env python3
# Regenerates MANIFEST.json from the table below (developer aid; MANIFEST.json is the committed interface).
import json, os, re
V = os.path.dirname(os.path.abspath(__file__))
props = [json.loads(l) for l in open(V + '/properties.jsonl')]
TB = "Trusted: the harness oracle code under harness/props, rapid v1.3.0, go1.26.8 toolchain. "
INFO = {
 "C01": ("model-based stateful PBT (rapid): ring reference model + raw-dump projection oracle",
         "Generated histories compared step by step with an independent ring model and, relationally, with the raw slot dump; no counterexample among the generated histories - exploration, not proof.",
         TB + "Clock values restricted to zone Z7; archive ids in range (DESIGN.md section 7)."),
 "C02": ("model-based stateful PBT (rapid): full propagation model, whole-file content comparison after every write",
         "Every write of a generated history is mirrored in a level-by-level propagation model; the whole physical content (stale laps included) must match. Exploration.",
         TB + "Z1 (float32 xff boundary) cases are discarded; finite input values only."),
 "C03": ("model-based PBT + metamorphic permutation relation (rapid)",
         "Accept/reject verdicts and per-point routing predicted by the statement's rules are compared with the file content after each write; the last batch is re-run permuted and must give byte-identical files. Exploration.",
         TB + "Z2: same-slot points with distinct timestamps are supplied in time order."),
 "C05": ("stateful PBT (rapid) with byte-level invariants over the history: file re-read after every operation, independent parser vs. last-synced model",
         "After every operation of a generated history the file bytes are re-read: length fixed, unchanged outside Sync, and equal (through an independent parser) to the model state of the last Sync - each operation boundary is a simulated crash point; after each Sync a second handle, the live handle and the disk agree. Exploration.",
         TB + "The page cache stands in for the disk; crashes during Sync are out of scope."),
 "C06": ("differential testing against go-whisper on the same bytes + independent format parser (rapid)",
         "Files written by either implementation are decoded by a specification parser and read by both libraries; metadata and best-archive fetches of non-degenerate windows must agree. Exploration.",
         TB + "go-whisper (pinned version from /repo's go.sum) is the reference reader; realistic clocks."),
 "C07": ("PBT with single-rule boundary mutation against an exact-arithmetic validity predicate; differential across four entry points + CLI flags (rapid)",
         "Archive lists mutated at each rule boundary and at 32-bit limits are judged in int64 arithmetic; NewHeader/Create, the retention-string parser, header decoding and Open, and the CLI flag values must all give that verdict; accepted layouts are created, synced, reopened and compared byte for byte. Exploration.",
         TB + "Z3 grey zone (retention in [2^31,2^32), file end beyond 2^32) gets no verdict."),
 "C14": ("round-trip PBT over generated objects with framing/prefix protocol oracle (rapid; native go fuzz target FuzzC14 available)",
         "Generated headers, series, point lists, points, values (all float64 bit patterns), timestamps and durations are encoded, concatenated, followed by trailing bytes, decoded and compared bit for bit; proper prefixes must yield a want-larger-buffer request with a size in (given, complete]. Exploration.",
         TB + "Series satisfy until = from + n*step within 32 bits."),
 "C15": ("fuzzing with structure-aware mutation of specification-encoded messages, executed in an RLIMIT_AS-sandboxed child with allocation accounting (rapid)",
         "Random and mutated byte strings are fed to every decoder, to Open + operations on the opened handle, and to the client-side decoders through a hostile HTTP server; a panic, child death or allocation beyond 1 MiB + 64 x input is a violation. Exploration.",
         TB + "A hang is confirmed by a second run of the same input in a fresh process (20 s + 90 s) and then reported as a violation; allocation measured with runtime/metrics."),
 "C19": ("round-trip PBT + independent big-integer / calendar evaluation of generated strings (rapid); exhaustive enumeration of all 2^31 durations, 2^32 timestamps and all strings up to length 5 in the thorough tier",
         "parse(print(x)) == x and exact-meaning checks on generated values and strings; the thorough tier enumerates the two 32-bit domains and the short-string space completely, through the same judges. Exploration (exhaustive on the enumerated sub-domains).",
         TB + "Years outside 1970-2106, redundant leading zeros and fractional seconds get no verdict."),
 "C08": ("PBT of the copy command at a controlled clock (synctest) with a slot-wise oracle from library fetches; metamorphic: repeat = no-op, copy;diff = clean",
         "Generated sources/destinations/windows/selections; after a successful copy every selected slot is compared with the source, the copy is repeated (bytes unchanged) and diff is run. Exploration.",
         TB + "Library fetches (checked by C01/C04) provide ground truth; realistic clocks; Z4."),
 "C09": ("PBT of diff with an independently computed difference set; metamorphic symmetry (swap sides), self/copy = clean",
         "The listed lines and the verdict are compared with the set of differing slots computed from library fetches; sides are swapped; glob runs with mixed verdicts. Exploration.",
         TB + "Z4 (+0/-0)."),
 "C10": ("PBT of sum against an independent slot-wise NaN-skipping sum over generated trees (exactly summable values)",
         "Generated item trees and patterns; parsed output compared with an independent sum; error classes for mismatching layouts and empty matches. Exploration.",
         TB + "Exactly summable values make the oracle independent of summation order; stdlib glob decides which files match."),
 "C11": ("PBT of sum-copy / sum-diff: destination vs. independent sum, metamorphic (sum-copy;sum-diff = clean, repeat = no-op), perturbation => exact listing",
         "After sum-copy every selected destination slot equals the independent sum (NaN included); sum-diff is clean; after perturbing slots sum-diff lists exactly the deviations. Exploration.",
         TB + "Z5 (missing side in sum-diff) not asserted."),
 "C12": ("differential PBT: the same command run against the directory and against an in-process whispertool server over real HTTP, at the same controlled clock",
         "Generated served trees and commands (view, view-raw, sum, diff, copy, sum-diff, globs; existing and missing targets) are executed locally and remotely; result class, text output and copied destination bytes must be identical. Exploration.",
         TB + "Error messages are not compared, only classes; one server per check process."),
 "C16": ("PBT over subcommand x selection x window x injected environment fault with effect oracles (baseline run + faulty run)",
         "Every subcommand is run with generated selections, windows and faults (unopenable / unwritable text output, missing, corrupt or unopenable source, layout mismatches, uncreatable or read-only destination); a panic, or success without the effect, is a violation. End-to-end cases run the built cmd/whispertool binary and judge its exit status (0 / 1 / 2). Exploration / fault injection by construction.",
         TB + "Permission faults are produced by ENOTDIR, EISDIR, /proc, /dev/full and by switching the effective uid to nobody around the call; the end-to-end scenarios run at the real clock and use only clock-independent expectations."),
 "C18": ("PBT of view / view-raw text output parsed back and compared with library fetches and an independent parse of the file bytes",
         "Printed header, point records (bit-exact after parsing) and raw slot dumps are compared with the fetched windows and the physical slots; view records must reappear in view-raw. Exploration.",
         TB + "Z6 (from == until in view-raw) not asserted."),
 "C20": ("PBT of generate with a validity predicate over the produced file (many correct outputs)",
         "Generated layouts, maxima, fill modes and generation instants; header bytes, emptiness without fill, value range/integrality and the coarse = sum of retained finer slots relation are checked; existing destinations must be refused untouched. Exploration.",
         TB + "The generator's RNG is crypto-seeded; only validity is judged."),
 "C13": ("fault-injected lock-lifetime probes (flock LOCK_NB on a fresh descriptor, /proc/self/fd count, GC disabled) + randomized concurrent session stress with a lost-update / torn-read oracle, goroutines and separate processes",
         "Every generated way an Open/Create can fail after the descriptor was obtained is followed by a deterministic lock/descriptor probe; healthy handles must refuse the probe and block a second Open until Close; concurrent increment sessions and whole-archive readers must never lose an update or see mixed generations. Exploration: interleavings are sampled with generated yield points, not enumerated.",
         TB + "Linux flock semantics; OS scheduling not controlled (DESIGN.md section 8)."),
 "C17": ("randomized concurrency stress under the Go race detector with a concurrent == sequential differential oracle",
         "Generated concurrent fetches on one handle, sum over up to 40 files, and parallel HTTP requests of every endpoint run in a -race build (a race report ends the process and is the violation); every concurrent result must equal the same call executed alone. Exploration.",
         TB + "The race detector only sees accesses that executed; schedules are not enumerated (DESIGN.md section 8)."),
 "C04": ("PBT against an executable contract in exact arithmetic (rapid), metamorphic over stored content",
         "The fetch shape contract is evaluated in int64 arithmetic and compared for generated (layout, clock, window, id) tuples on empty, partly written and written files. Exploration.",
         TB + "Clock in zone Z7."),
}
claimed = [p['id'] for p in props if p['id'] in INFO and os.path.exists(V + '/harness/props/%s_test.go' % p['id'].lower())]
NA = {}
checks = []
for p in props:
    i = p['id']
    if i in claimed:
        tech, text, note = INFO[i]
        checks.append(dict(property_id=i, quick_cmd="./check %s --tier quick" % i, thorough_cmd="./check %s --tier thorough" % i,
            evidence_file="/verif/evidence/%s.json" % i, replay_cmd_template="./check %s --replay {path}" % i, engine="props",
            level_claimed=dict(category="exploration", text=text, design_ref="DESIGN.md section 4 " + i), level_note=note, technique=tech))
m = dict(version=1, setup_cmd="./check --build-only",
    hooks=dict(guard="verif", enable="no hooks: the harness uses only the exported API of /repo through a go.mod replace directive; nothing in /repo is built with the tag",
               baseline_off_cmd="cd /repo && GOFLAGS=-mod=mod go test -vet=off -count=1 -timeout 25m ./...", source_commits=[], add_only=True),
    engines=[dict(name="props", path="/verif/harness/props", serves_properties=claimed,
                  kind_free_text="Go test package driven by pgregory.net/rapid v1.3.0 (generate -> execute -> judge) and native go fuzzing, run by ./check")],
    checks=checks,
    notes="All checks are property-based tests / fuzzers; see DESIGN.md. Known findings file: /verif/known_findings.json (fix: commits in /repo are its 'fixed' entries; its one 'known' entry, C20 generate with a retention longer than the time since the epoch, is reported as a KNOWN-FINDING line with exit 0).",
    not_applicable=[dict(property_id=p['id'], reason=NA.get(p['id'], "check under construction in this session (planned, see DESIGN.md section 4)")) for p in props if p['id'] not in claimed])
json.dump(m, open(V + '/MANIFEST.json', 'w'), indent=1)
print("claimed:", claimed)
