#!/bin/bash
# developer aid: apply every seeded change to /repo in turn, run its property's check, restore /repo.
# usage: seedsweep.sh [quick|thorough]   (prints one line per seed)
tier=${1:-quick}
cd /repo || exit 2
git diff --quiet || { echo "/repo has uncommitted changes"; exit 2; }
for d in /verif/seeded/C*/; do
  n=$(basename $d); id=${n:0:3}
  if ! git apply --check $d/patch.diff 2>/dev/null; then echo "$n NOAPPLY"; continue; fi
  git apply $d/patch.diff
  if ! go build ./... 2>/dev/null; then echo "$n NOBUILD"; git checkout -- . ; git clean -fdq; continue; fi
  out=$(cd /verif && ./check $id --tier $tier 2>&1); rc=$?
  git checkout -- . ; git clean -fdq
  echo "$n rc=$rc $(echo "$out" | grep -m1 'finding:\|^OK\|INCONCLUSIVE' | cut -c1-160)"
done
