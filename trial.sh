#!/bin/bash
# developer aid: run checks against a scratch copy of /repo (HEAD + optional patch) WITHOUT touching /repo, so that
# trials of seeded changes can run while other checks use /repo. Evidence written here is thrown away.
# usage: trial.sh <name> <patch.diff|-> <tier> <ID>...
name=$1; patch=$2; tier=$3; shift 3
d=/tmp/sv-$name
rm -rf $d; mkdir -p $d
git -C /repo worktree add -q --detach $d/repo HEAD || exit 2
trap 'git -C /repo worktree remove --force $d/repo; rm -rf $d' EXIT
# (a seeded patch written against an earlier /repo HEAD may overlap a later fix: commit; it is then tried on the
# parents of HEAD, newest first - the checks that judge it do not depend on that fix)
if [ "$patch" != "-" ]; then
  applied=""
  for back in 0 1 2 3; do
    git -C $d/repo checkout -q --detach HEAD 2>/dev/null; git -C $d/repo reset -q --hard $(git -C /repo rev-parse HEAD~$back)
    if git -C $d/repo apply $patch 2>/dev/null; then applied=$back; break; fi
  done
  [ -n "$applied" ] || { echo "$name NOAPPLY"; exit 2; }
  [ "$applied" != "0" ] && name="$name(on HEAD~$applied)"
  (cd $d/repo && GOFLAGS=-mod=mod GOPROXY=off go build ./... 2>/dev/null) || { echo "$name NOBUILD"; exit 2; }
fi
rsync -a --exclude .build --exclude replays/found --exclude .git /verif/ $d/verif/
sed -i "s#=> /repo#=> $d/repo#" $d/verif/go.mod
cd $d/verif
for id in "$@"; do
  out=$(./check $id --tier $tier 2>&1); rc=$?
  [ -n "$SHOWX" ] && jq -c "$SHOWX" evidence/$id.json
  echo "$name $id rc=$rc $(echo "$out" | grep -m1 'finding:\|^OK\|INCONCLUSIVE\|BUILD-FAILED' | cut -c1-${WIDTH:-220})"
done
