package props

// A third of the command executions of the command-level checks are not run on the struct the check
// built but on a command obtained by Parse-ing the equivalent command line (the way cmd/whispertool
// builds it), so that the mapping flag -> option (names, defaults, value syntax) is under the same
// oracles: "for any archive selection, any window, any copy option and any output destination".
// Which executions are re-routed is a pure function of the command's own fields (no random choice,
// replays behave identically). A command line that Parse refuses (an option combination the flags
// cannot express, e.g. -from without -until) falls back to the struct; a refusal is never a finding.

import (
	"flag"
	"fmt"
	"hash/fnv"
	"io"
	"math"
	"os"
	"reflect"
	"strconv"
	"strings"
	"sync/atomic"
	"time"

	wt "github.com/hnakamur/whispertool"
	"github.com/hnakamur/whispertool/cmd"
)

var (
	viaFlagsRuns    int64 // executions that went through Parse
	viaFlagsRefused int64 // command lines Parse refused (struct executed instead)
	viaFlagsOff     bool
)

func flagTime(ts wt.Timestamp) string {
	return time.Unix(int64(ts), 0).UTC().Format("2006-01-02T15:04:05Z")
}

func flagRetentions(l wt.ArchiveInfoList) (string, bool) {
	if len(l) == 0 {
		return "", false
	}
	s := ""
	for i, a := range l {
		step, n := int64(a.SecondsPerPoint()), int64(a.NumberOfPoints())
		if step <= 0 || n <= 0 || step*n > math.MaxInt32 {
			return "", false
		}
		if i > 0 {
			s += ","
		}
		s += fmt.Sprintf("%ds:%ds", step, step*n)
	}
	return s, true
}

func flagLayoutArgs(m wt.AggregationMethod, xff float32, l wt.ArchiveInfoList) ([]string, bool) {
	if m < 1 || m > 6 || xff != xff {
		return nil, false
	}
	r, ok := flagRetentions(l)
	if !ok {
		return nil, false
	}
	return []string{"-agg-method=" + methodNames[m], "-x-files-factor=" + strconv.FormatFloat(float64(xff), 'g', -1, 32), "-retentions=" + r}, true
}

func flagWindowArgs(from, until wt.Timestamp) []string {
	var a []string
	if from != 0 {
		a = append(a, "-from="+flagTime(from))
	}
	if until != 0 {
		a = append(a, "-until="+flagTime(until))
	}
	return a
}

// commandLine renders a command as (fresh command of the same type, arguments); ok is false for
// commands whose options a command line cannot carry.
func commandLine(c cmd.Command) (fresh cmd.Command, args []string, ok bool) {
	b := strconv.FormatBool
	switch x := c.(type) {
	case *cmd.ViewCommand:
		args = append([]string{"-src-base=" + x.SrcBase, "-src=" + x.SrcRelPath, "-archive=" + strconv.Itoa(x.ArchiveID), "-header=" + b(x.ShowHeader), "-text-out=" + x.TextOut}, flagWindowArgs(x.From, x.Until)...)
		return &cmd.ViewCommand{}, args, true
	case *cmd.ViewRawCommand:
		args = append([]string{"-src-base=" + x.SrcBase, "-src=" + x.SrcRelPath, "-archive=" + strconv.Itoa(x.ArchiveID), "-header=" + b(x.ShowHeader), "-sort=" + b(x.SortsByTime), "-text-out=" + x.TextOut}, flagWindowArgs(x.From, x.Until)...)
		return &cmd.ViewRawCommand{}, args, true
	case *cmd.SumCommand:
		args = append([]string{"-src-base=" + x.SrcBase, "-item=" + x.ItemPattern, "-src=" + x.SrcPattern, "-archive=" + strconv.Itoa(x.ArchiveID), "-header=" + b(x.ShowHeader), "-text-out=" + x.TextOut}, flagWindowArgs(x.From, x.Until)...)
		return &cmd.SumCommand{}, args, true
	case *cmd.DiffCommand:
		args = append([]string{"-src-base=" + x.SrcBase, "-src=" + x.SrcRelPath, "-dest-base=" + x.DestBase, "-archive=" + strconv.Itoa(x.ArchiveID), "-text-out=" + x.TextOut}, flagWindowArgs(x.From, x.Until)...)
		if x.DestRelPath != "" {
			args = append(args, "-dest="+x.DestRelPath)
		}
		return &cmd.DiffCommand{}, args, true
	case *cmd.SumDiffCommand:
		args = append([]string{"-src-base=" + x.SrcBase, "-item=" + x.ItemPattern, "-src=" + x.SrcPattern, "-dest-base=" + x.DestBase, "-dest=" + x.DestRelPath, "-archive=" + strconv.Itoa(x.ArchiveID), "-text-out=" + x.TextOut}, flagWindowArgs(x.From, x.Until)...)
		return &cmd.SumDiffCommand{}, args, true
	case *cmd.CopyCommand:
		la, ok := flagLayoutArgs(x.AggregationMethod, x.XFilesFactor, x.ArchiveInfoList)
		if !ok {
			return nil, nil, false
		}
		args = append([]string{"-src-base=" + x.SrcBase, "-src=" + x.SrcRelPath, "-dest-base=" + x.DestBase, "-archive=" + strconv.Itoa(x.ArchiveID), "-copy-nan=" + b(x.CopyNaN), "-text-out=" + x.TextOut}, flagWindowArgs(x.From, x.Until)...)
		if x.DestRelPath != "" {
			args = append(args, "-dest="+x.DestRelPath)
		}
		return &cmd.CopyCommand{}, append(args, la...), true
	case *cmd.SumCopyCommand:
		la, ok := flagLayoutArgs(x.AggregationMethod, x.XFilesFactor, x.ArchiveInfoList)
		if !ok {
			return nil, nil, false
		}
		args = append([]string{"-src-base=" + x.SrcBase, "-item=" + x.ItemPattern, "-src=" + x.SrcPattern, "-dest-base=" + x.DestBase, "-dest=" + x.DestRelPath, "-archive=" + strconv.Itoa(x.ArchiveID), "-text-out=" + x.TextOut}, flagWindowArgs(x.From, x.Until)...)
		return &cmd.SumCopyCommand{}, append(args, la...), true
	case *cmd.GenerateCommand:
		la, ok := flagLayoutArgs(x.AggregationMethod, x.XFilesFactor, x.ArchiveInfoList)
		if !ok {
			return nil, nil, false
		}
		args = []string{"-dest=" + x.Dest, "-perm=" + strconv.FormatUint(uint64(x.Perm), 8), "-max=" + strconv.Itoa(x.RandMax), "-fill=" + b(x.Fill), "-text-out=" + x.TextOut}
		return &cmd.GenerateCommand{}, append(args, la...), true
	}
	return nil, nil, false
}

// respellBases rewrites, for half of the cases (chosen by the case's salt), a local
// base directory into another spelling of the same directory - a trailing slash, a doubled separator, a "."
// component - as a user types them. URLs are left alone.
// noChdir: this process serves a base directory given relative to its working directory, which therefore stays put.
var noChdir bool

func respellBases(c cmd.Command) cmd.Command {
	v0 := reflect.ValueOf(c)
	if v0.Kind() != reflect.Ptr || v0.Elem().Kind() != reflect.Struct {
		return c
	}
	// (a copy: the caller may execute its command object again)
	v := reflect.New(v0.Elem().Type())
	v.Elem().Set(v0.Elem())

	for _, name := range []string{"SrcBase", "DestBase"} {
		f := v.Elem().FieldByName(name)
		if !f.IsValid() || f.Kind() != reflect.String || !f.CanSet() {
			continue
		}
		p := f.String()
		if p == "" || strings.Contains(p, "://") || !strings.HasPrefix(p, "/") || strings.HasSuffix(p, "/") {
			continue
		}
		i := strings.LastIndexByte(p, '/')
		if name == "SrcBase" && i > 0 && !noChdir {
			switch (caseSalt() / 11) % 10 {
			case 0, 1:
				// a path relative to the working directory (runCommand restores the directory afterwards)
				if os.Chdir(p[:i]) == nil {
					if (caseSalt()/11)%10 == 0 {
						f.SetString(p[i+1:])
					} else {
						f.SetString("./" + p[i+1:])
					}
					continue
				}
			}
		}
		switch (caseSalt()/7 + uint64(len(name))) % 8 {
		case 0:
			f.SetString(p + "/")
		case 1:
			f.SetString(p[:i] + "//" + p[i+1:])
		case 2:
			f.SetString(p[:i] + "/./" + p[i+1:])
		case 3:
			f.SetString(p + "/.")
		}
	}
	if cc, ok := v.Interface().(cmd.Command); ok {
		return cc
	}
	return c
}

// throughFlags returns the command to execute: c itself, or its Parse-d equivalent.
func throughFlags(c cmd.Command) cmd.Command {
	if viaFlagsOff {
		return c
	}
	c = respellBases(c)
	fresh, args, ok := commandLine(c)
	if !ok {
		return c
	}
	h := fnv.New32a()
	for _, a := range args {
		// scratch paths differ from run to run and stay out of the choice
		if strings.HasPrefix(a, "-src-base=") || strings.HasPrefix(a, "-dest-base=") || strings.HasPrefix(a, "-text-out=") {
			continue
		}
		if _, isGen := c.(*cmd.GenerateCommand); isGen && strings.HasPrefix(a, "-dest=") {
			continue
		}
		h.Write([]byte(a))
		h.Write([]byte{0})
	}
	if h.Sum32()%3 != 0 {
		return c
	}
	// options at their documented default are left off the command line
	_, isGen := c.(*cmd.GenerateCommand)
	kept := args[:0:0]
	for _, a := range args {
		switch a {
		case "-archive=-1", "-sort=false", "-copy-nan=false":
			continue
		case "-header=true":
			continue
		case "-fill=true", "-max=100", "-perm=644", "-text-out=":
			if isGen {
				continue
			}
		}
		kept = append(kept, a)
	}
	args = kept
	fs := flag.NewFlagSet("verif", flag.ContinueOnError)
	fs.SetOutput(io.Discard)
	fs.Usage = func() {}
	var err error
	if pm := guard(func() { err = fresh.Parse(fs, args) }); pm != "" {
		return panickedCommand{"Parse(" + strings.Join(args, " ") + ") panicked: " + pm}
	}
	if err != nil {
		atomic.AddInt64(&viaFlagsRefused, 1)
		return c
	}
	atomic.AddInt64(&viaFlagsRuns, 1)
	return fresh
}

// panickedCommand re-raises a panic that escaped Parse inside Execute, where the checks look for it.
type panickedCommand struct{ msg string }

func (p panickedCommand) Parse(*flag.FlagSet, []string) error { return nil }
func (p panickedCommand) Execute() error                      { panic(p.msg) }
