package props

import (
	"fmt"
	"math"
	"os"
	"path/filepath"
	"sort"
	"strconv"
	"testing"

	wt "github.com/hnakamur/whispertool"
	"github.com/hnakamur/whispertool/cmd"
	"pgregory.net/rapid"
)

// C18 - view and view-raw show exactly what is stored.
type C18Case struct {
	Now        int64    `json:"now"`
	Spec       FileSpec `json:"spec"`
	From       int64    `json:"from"`
	Until      int64    `json:"until"`
	ArchiveID  int      `json:"archive_id"`
	ShowHeader bool     `json:"show_header"`
	Sort       bool     `json:"sort"`
	// Later: writes made after the file was built by a writer whose clock is LaterBy seconds ahead of the
	// viewer's (timestamps after the viewer's now): they occupy ring slots of intervals inside the viewer's window
	Later   []SlotWrite `json:"later,omitempty"`
	LaterBy int64       `json:"later_by,omitempty"`
	// BlankFirst > 0: the first physical slot of archive BlankFirst-1 is zeroed after the file was built (a hole
	// punched by another tool): view-raw still prints every physical slot as it is stored
	BlankFirst int `json:"blank_first,omitempty"`
}

// checkHeaderBlock compares printed header records with the layout (independent rendering rules).
func checkHeaderBlock(recs []Record, l Layout) string {
	var meta Record
	var infos []Record
	for _, r := range recs {
		if _, ok := r["aggMethod"]; ok {
			if meta != nil {
				return "more than one metadata line"
			}
			meta = r
		}
		if _, ok := r["archiveInfo"]; ok {
			infos = append(infos, r)
		}
	}
	if meta == nil {
		return "no metadata line"
	}
	if meta["aggMethod"] != methodNames[l.Method] || meta["aggMethodNum"] != strconv.Itoa(l.Method) {
		return fmt.Sprintf("method printed as %s/%s, file has %s/%d", meta["aggMethod"], meta["aggMethodNum"], methodNames[l.Method], l.Method)
	}
	if v, wf, _ := durMeaning(meta["maxRetention"]); !wf || v.Int64() != l.MaxRet() {
		return fmt.Sprintf("maxRetention printed as %q, file has %d s", meta["maxRetention"], l.MaxRet())
	}
	if x, err := strconv.ParseFloat(meta["xFileFactor"], 32); err != nil || float32(x) != l.XFF {
		return fmt.Sprintf("xFilesFactor printed as %q, file has %v", meta["xFileFactor"], l.XFF)
	}
	if meta["archiveCount"] != strconv.Itoa(len(l.Archives)) || len(infos) != len(l.Archives) {
		return fmt.Sprintf("archiveCount %s with %d archiveInfo lines, file has %d archives", meta["archiveCount"], len(infos), len(l.Archives))
	}
	off := int64(16 + 12*len(l.Archives))
	for i, a := range l.Archives {
		r := infos[i]
		v, wf, _ := durMeaning(r["durationPerPoint"])
		if r["archiveInfo"] != strconv.Itoa(i) || !wf || v.Int64() != a.Step || r["numberOfPoints"] != strconv.FormatInt(a.Points, 10) || r["offset"] != strconv.FormatInt(off, 10) {
			return fmt.Sprintf("archive line %d is %q, file has step %d, %d points at offset %d", i, r["_line"], a.Step, a.Points, off)
		}
		off += 12 * a.Points
	}
	return ""
}

func runC18(c C18Case, ev *Evid) (fs []Finding) {
	add := func(key, format string, args ...interface{}) {
		fs = append(fs, Finding{Property: "C18", Key: key, Detail: fmt.Sprintf(format, args...)})
	}
	dir := scratchDir()
	defer os.RemoveAll(dir)
	now := c.Now
	until := effUntil(c.Until, now)
	l := c.Spec.L
	path := filepath.Join(dir, "base", "d", "f.wsp")
	if err := buildFile(path, c.Spec, now); err != nil {
		add("setup", "%v", err)
		return
	}
	if len(c.Later) > 0 {
		if err := modifyFile(path, c.Later, now+c.LaterBy); err != nil {
			add("setup", "later writes: %v", err)
			return
		}
	}
	if c.BlankFirst > 0 && c.BlankFirst <= len(l.Archives) {
		off := int64(16 + 12*len(l.Archives))
		for a := 0; a < c.BlankFirst-1; a++ {
			off += 12 * l.Archives[a].Points
		}
		if f, err := os.OpenFile(path, os.O_WRONLY, 0); err == nil {
			f.WriteAt(make([]byte, 12), off)
			f.Close()
		}
	}
	desc := fmt.Sprintf("now=%d from=%d until=%d archive=%d header=%v sort=%v layout=%s later-writes=%d blank-first=%d", now, c.From, c.Until, c.ArchiveID, c.ShowHeader, c.Sort, l, len(c.Later), c.BlankFirst)
	// ---- view
	vout := filepath.Join(dir, "view.txt")
	vc := &cmd.ViewCommand{SrcBase: filepath.Join(dir, "base"), SrcRelPath: "d/f.wsp", From: wt.Timestamp(c.From), Until: wt.Timestamp(c.Until), ArchiveID: c.ArchiveID, ShowHeader: c.ShowHeader, TextOut: vout}
	err, pm := runCommand(now, vc)
	if pm != "" {
		add("view-panic", "view %s: panicked: %s", desc, pm)
		return
	}
	if err != nil {
		add("view-error", "view %s: %v", desc, err)
		return
	}
	vrecs := parseLTSV(readText(vout))
	if c.ShowHeader {
		if d := checkHeaderBlock(vrecs, l); d != "" {
			add("view-header", "view %s: %s", desc, d)
			return
		}
		if len(vrecs) > 0 {
			if _, ok := vrecs[0]["aggMethod"]; !ok {
				add("view-header-order", "view %s: the header is not printed first", desc)
				return
			}
		}
	} else {
		for _, r := range vrecs {
			if _, ok := r["aggMethod"]; ok {
				add("view-header", "view %s: header printed although not requested", desc)
				return
			}
		}
	}
	fetched, _ := readArchives(path, l, c.From, until, now)
	// expected sequence in archive then time order
	var want []rawPoint
	var wantArch []int
	for a := range l.Archives {
		if c.ArchiveID != -1 && c.ArchiveID != a {
			continue
		}
		r := fetched[a]
		if r.Nil || r.Err != nil {
			continue
		}
		for k, v := range r.S.Values {
			want = append(want, rawPoint{r.S.From + int64(k)*r.S.Step, v})
			wantArch = append(wantArch, a)
		}
	}
	var got []rawPoint
	var gotArch []int
	digits17, infs := 0, 0
	for _, r := range vrecs {
		if _, ok := r["val"]; !ok {
			continue
		}
		a, aerr := strconv.Atoi(r["archive"])
		t, ok1 := parseTime(r["t"])
		v, ok2 := parseVal(r["val"])
		if aerr != nil || !ok1 || !ok2 {
			add("view-unparsable", "view %s: bad record %q", desc, r["_line"])
			return
		}
		got = append(got, rawPoint{t, v})
		gotArch = append(gotArch, a)
		if math.IsInf(v, 0) {
			infs++
		} else if v == v && len(strconv.FormatFloat(math.Abs(v), 'e', -1, 64)) >= 20 {
			digits17++
		}
	}
	if len(got) != len(want) {
		add("view-records", "view %s: %d point records, the fetched windows have %d slots", desc, len(got), len(want))
		return
	}
	for i := range want {
		if gotArch[i] != wantArch[i] || got[i].T != want[i].T || !sameF(got[i].V, want[i].V) {
			add("view-record", "view %s: record %d is (archive %d, t=%d, %s); fetch gives (archive %d, t=%d, %s)", desc, i, gotArch[i], got[i].T, fstr(got[i].V), wantArch[i], want[i].T, fstr(want[i].V))
			return
		}
	}
	// ---- view-raw
	rout := filepath.Join(dir, "raw.txt")
	rc := &cmd.ViewRawCommand{SrcBase: filepath.Join(dir, "base"), SrcRelPath: "d/f.wsp", From: wt.Timestamp(c.From), Until: wt.Timestamp(c.Until), ArchiveID: c.ArchiveID, ShowHeader: c.ShowHeader, SortsByTime: c.Sort, TextOut: rout}
	err, pm = runCommand(now, rc)
	if pm != "" {
		add("view-raw-panic", "view-raw %s: panicked: %s", desc, pm)
		return
	}
	if err != nil {
		add("view-raw-error", "view-raw %s: %v", desc, err)
		return
	}
	rrecs := parseLTSV(readText(rout))
	if c.ShowHeader {
		if d := checkHeaderBlock(rrecs, l); d != "" {
			add("view-raw-header", "view-raw %s: %s", desc, d)
			return
		}
	}
	b, _ := os.ReadFile(path)
	wf, perr := ParseWsp(b)
	if perr != nil {
		add("setup", "file unparsable: %v", perr)
		return
	}
	gotRaw := map[int][]rawPoint{}
	for _, r := range rrecs {
		if _, ok := r["val"]; !ok {
			continue
		}
		a, aerr := strconv.Atoi(r["archive"])
		t, ok1 := parseTime(r["t"])
		v, ok2 := parseVal(r["val"])
		if aerr != nil || !ok1 || !ok2 {
			add("view-raw-unparsable", "view-raw %s: bad record %q", desc, r["_line"])
			return
		}
		gotRaw[a] = append(gotRaw[a], rawPoint{t, v})
	}
	if c.From != until { // Z6: from == until not asserted
		for a := range l.Archives {
			var exp []rawPoint
			if c.ArchiveID == -1 || c.ArchiveID == a {
				for _, s := range wf.Slots[a] {
					t := int64(s.Interval)
					if t <= until && (c.From == 0 || t > c.From) {
						exp = append(exp, rawPoint{t, s.Value})
					}
				}
				if c.Sort {
					sort.SliceStable(exp, func(i, j int) bool { return exp[i].T < exp[j].T })
				}
			}
			g := gotRaw[a]
			if len(g) != len(exp) {
				add("view-raw-records", "view-raw %s: archive %d: %d records, %d physical slots fall into the requested range", desc, a, len(g), len(exp))
				return
			}
			for i := range exp {
				if g[i].T != exp[i].T || !sameF(g[i].V, exp[i].V) {
					add("view-raw-record", "view-raw %s: archive %d record %d is (t=%d, %s), physical slot order gives (t=%d, %s)", desc, a, i, g[i].T, fstr(g[i].V), exp[i].T, fstr(exp[i].V))
					return
				}
			}
		}
		// cross relation: non-NaN view records inside the requested range appear in view-raw
		for i, p := range got {
			if p.V != p.V || !(p.T <= until && (c.From == 0 || p.T > c.From)) {
				continue
			}
			found := false
			for _, q := range gotRaw[gotArch[i]] {
				if q.T == p.T && sameF(q.V, p.V) {
					found = true
					break
				}
			}
			if !found {
				add("view-not-in-raw", "%s: view shows (archive %d, t=%d, %s) inside the requested range but view-raw does not", desc, gotArch[i], p.T, fstr(p.V))
				return
			}
		}
	}
	nonNaN := 0
	for _, p := range got {
		if p.V == p.V {
			nonNaN++
		}
	}
	nontrivial := nonNaN > 0 && (digits17 > 0 || infs > 0)
	cls := []string{}
	if digits17 > 0 {
		cls = append(cls, "17-digit-value")
	}
	if infs > 0 {
		cls = append(cls, "infinity")
	}
	if c.Sort {
		cls = append(cls, "sorted")
	}
	if c.ShowHeader {
		cls = append(cls, "header")
	}
	if c.ArchiveID >= 0 {
		cls = append(cls, "single-archive")
	}
	if c.From == until {
		cls = append(cls, "Z6-from==until")
	}
	for a := range l.Archives {
		if base := int64(wf.Slots[a][0].Interval); base != 0 {
			for j, s := range wf.Slots[a] {
				if j > 0 && s.Interval != 0 && int64(s.Interval) < base {
					cls = append(cls, "wrapped-ring")
					break
				}
			}
		}
	}
	ev.Count(HashJSON(c), nontrivial, cls...)
	if nontrivial && ev.WantSample() && len(c.Spec.Writes) < 10 {
		ev.Sample(c)
	}
	return nil
}

func TestC18(t *testing.T) {
	RunProperty(t, Property[C18Case]{
		NoteCases:   true,
		ID:          "C18",
		Rule:        "rapid-generated files (values needing 17 significant digits, +-Inf, NaN-valued points, empty slots, rings whose first-written slot is not the oldest) x window x archive selection x header on/off x sort on/off, view and view-raw run at a controlled clock. Oracle: header block fields vs. the layout (names, numbers, durations evaluated independently, offsets); view records == the fetched windows slot by slot in archive-then-time order with bit-exact values parsed back from the text; view-raw records == the physical slots decoded by the independent parser, filtered by t<=until and (from==0 or t>from), in physical order or stably time-sorted; every non-NaN view record inside the requested range appears in view-raw. Non-trivial: >=1 non-NaN record and a value needing >=17 significant digits or an infinity. Distinct = hash of the case.",
		Assumptions: []string{"Z6: view-raw with from == until is not asserted"},
		Gen: func(t *rapid.T) C18Case {
			l := genCLILayout(t)
			now := genNowRealistic(t, l)
			c := C18Case{Now: now, ArchiveID: -1}
			c.Spec = FileSpec{L: l, Writes: genWrites(t, l, now, valPrintable, 8)}
			c.From, c.Until = genCLIWindow(t, l, now)
			if rapid.IntRange(0, 24).Draw(t, "bigArchive") == 0 {
				// an archive of thousands of slots (bulk reads), partly filled from the newest end
				big := Layout{Archives: []Arch{{Step: l.Archives[0].Step, Points: rapid.Int64Range(4200, 9000).Draw(t, "bigPoints")}}, Method: l.Method, XFF: l.XFF}
				c.Spec = FileSpec{L: big, Fill: rapid.Int64Range(1, big.Archives[0].Points).Draw(t, "bigFill"), FillBase: 0.5}
				c.Now = genNowRealistic(t, big)
				c.From, c.Until = genCLIWindow(t, big, c.Now)
				c.ArchiveID = -1
				l = big
			}
			if rapid.IntRange(0, 9).Draw(t, "farUntil") == 0 {
				// range bounds decades away from the data (the text syntax allows any 32-bit instant)
				c.Until = rapid.SampledFrom([]int64{1 << 31, 1<<31 + 5, 4102444800, 1<<32 - 1, 3000000000}).Draw(t, "farUntilValue")
				if rapid.Bool().Draw(t, "from0") {
					c.From = 0
				}
			}
			if rapid.IntRange(0, 2).Draw(t, "oneArchive") == 0 {
				c.ArchiveID = rapid.IntRange(0, len(l.Archives)-1).Draw(t, "archive")
			}
			c.ShowHeader = rapid.Bool().Draw(t, "header")
			c.Sort = rapid.Bool().Draw(t, "sort")
			if l.Archives[0].Points <= 200 && rapid.IntRange(0, 5).Draw(t, "laterWriter") == 0 {
				a0 := l.Archives[0]
				c.LaterBy = rapid.Int64Range(1, a0.Ret()).Draw(t, "laterBy")
				n := rapid.IntRange(1, 8).Draw(t, "laterWrites")
				for i := 0; i < n; i++ {
					c.Later = append(c.Later, SlotWrite{Arch: 0, T: c.Now + rapid.Int64Range(1, c.LaterBy).Draw(t, "laterT"), V: F64(genFileValue(t, valPrintable))})
				}
			}
			if rapid.IntRange(0, 11).Draw(t, "blankFirst") == 0 {
				c.BlankFirst = 1 + rapid.IntRange(0, len(l.Archives)-1).Draw(t, "blankArchive")
			}
			return c
		},
		Run: runC18,
	})
}
