package props

import (
	"fmt"
	"testing"

	"pgregory.net/rapid"
)

// C01 - ring storage: a fetch returns the last value written to each live slot.
//
// Oracle: (a) the reference ring model for every slot (interval occupancy and value);
// (b) relational: fetch(window) == projection of the raw slot dump through the placement rule
// (slot index = ((interval-base)/S) mod N), which isolates storage/addressing from aggregation;
// (c) raw dump invariants (aligned intervals at the index the rule gives).
func runC01(c HistCase, ev *Evid) (fs []Finding) {
	h, err := newHistRunner("C01", c.L, c.Now)
	if err != nil {
		return []Finding{{Property: "C01", Key: "create-error", Detail: fmt.Sprintf("Create(%s): %v", c.L, err)}}
	}
	defer h.close()
	live, wrapReads, pageReads, checked := 0, 0, 0, 0
	for i, op := range c.Ops {
		h.step = i
		if f := h.apply(op); len(f) > 0 {
			return f
		}
		if h.db == nil {
			break
		}
		raw, f := h.rawState()
		if len(f) > 0 {
			return f
		}
		if f := h.checkRawPlacement(raw); len(f) > 0 {
			return f
		}
		// model == physical content (ring occupancy incl. stale laps)
		if f := h.compareRawToModel(raw, h.m, -1); len(f) > 0 {
			return f
		}
		wins := append([]Window(nil), op.Windows...)
		for a := range c.L.Archives {
			wins = append(wins, Window{ID: a, From: h.now - c.L.Archives[a].Ret(), Until: h.now})
		}
		for _, w := range wins {
			sh, vals := h.m.Fetch(w.ID, w.From, w.Until, h.now)
			r := fetchWT(h.db, w.ID, w.From, w.Until, h.now)
			ctx := fmt.Sprintf("step %d fetch(id=%d from=%d until=%d now=%d)", i, w.ID, w.From, w.Until, h.now)
			if f := compareFetch("C01", ctx, r, sh, vals); len(f) > 0 {
				return f
			}
			if sh.Err || sh.Nil {
				continue
			}
			checked++
			// relational oracle: the same window read off the raw dump
			pv := projectRaw(c.L, raw, sh)
			for k := range pv {
				if !sameF(pv[k], r.S.Values[k]) {
					return []Finding{h.finding("fetch-vs-raw", "%s slot t=%d: fetch says %s, raw dump placement says %s", ctx, sh.From+int64(k)*sh.Step, fstr(r.S.Values[k]), fstr(pv[k]))}
				}
			}
			for _, v := range vals {
				if v == v {
					live++
					break
				}
			}
			// wrap-around read: window crosses the physical end of the archive region
			ar := c.L.Archives[sh.Archive]
			if base := raw[sh.Archive][0].T; base != 0 {
				i0 := emod(floorDiv(sh.From-base, ar.Step), ar.Points)
				if i0+sh.Count > ar.Points {
					wrapReads++
				}
				off := int64(16+12*len(c.L.Archives)) + 12*i0
				for a := 0; a < sh.Archive; a++ {
					off += 12 * c.L.Archives[a].Points
				}
				if off/4096 != (off+12*sh.Count)/4096 {
					pageReads++
				}
			}
		}
	}
	nontrivial := live > 0 && (h.facts["stale-lap-write"] > 0 || h.facts["jump>ret0"] > 0 || wrapReads > 0 || h.facts["reopen"] > 0)
	var cls []string
	cls = append(cls, fmt.Sprintf("archives=%d", len(c.L.Archives)))
	for _, a := range c.L.Archives {
		switch {
		case a.Points <= 2:
			cls = append(cls, "ring<=2")
		case a.Points > 2730:
			cls = append(cls, "archive>2730-slots")
		case a.Points > 341:
			cls = append(cls, "multi-page-archive")
		}
	}
	if h.facts["stale-lap-write"] > 0 {
		cls = append(cls, "stale-lap-write")
	}
	if wrapReads > 0 {
		cls = append(cls, "wrap-read")
	}
	if pageReads > 0 {
		cls = append(cls, "page-straddling-read")
	}
	if h.facts["reopen"] > 0 {
		cls = append(cls, "reopen")
	}
	if h.facts["jump>ret0"] > 0 {
		cls = append(cls, "clock-jump>ret0")
	}
	if c.Now >= 1<<31 {
		cls = append(cls, "epoch-high")
	}
	ev.Count(HashJSON(c), nontrivial, cls...)
	ev.ClassN("windows-checked", checked)
	if nontrivial && ev.WantSample() {
		ev.Sample(c)
	}
	return nil
}

func TestC01(t *testing.T) {
	RunProperty(t, Property[HistCase]{
		ID:          "C01",
		Rule:        "rapid-generated histories (layout x clock x <=30 ops of single/batch writes to any archive incl. stale-lap writes, clock advances up to 3x max retention, sync, reopen); after every op every archive's full-retention window plus 3 generated windows and the raw dump are compared with the ring model and with each other. Non-trivial: a checked window held >=1 live value AND the history had a stale-lap write, a clock jump longer than the finest retention, a wrap-around read or a reopen. Distinct = hash of the whole case.",
		Assumptions: []string{"clock and timestamps inside zone Z7 (now > maxRetention + coarsest step, well below 2^32)", "archive ids passed to updates are in range (Z8)", "same-slot points with distinct timestamps are supplied in time order (Z2)"},
		Gen: func(t *rapid.T) HistCase {
			o := defaultLayoutOpts()
			o.HugePct = 3
			o.BigRatioPct = 2
			l := genLayout(t, o)
			if l.Archives[0].Points > 2730 {
				// runs of thousands of slots: keep the history short (every step re-reads the whole archive)
				return genHistory(t, l, histGenOpts{MaxOps: 6, FuturePct: 3, StaleNamed: true, Windows: 3, Reopen: true, BigBatches: true})
			}
			return genHistory(t, l, histGenOpts{MaxOps: 30, FuturePct: 3, StaleNamed: true, Windows: 3, Reopen: true, BigBatches: true})
		},
		Run:  runC01,
		Trim: trimHist,
		Fixed: func() []HistCase {
			// one batch of more points than any plausible write buffer holds (2^16 + 1 and more), into an archive
			// of that size, then a wrap: cover batches of the generator stop at 8000 points
			mk := func(n, step int64, more []Arch) HistCase {
				l := Layout{Archives: append([]Arch{{Step: step, Points: n}}, more...), Method: 2, XFF: 0}
				now := int64(1500000000)
				var pts []MPoint
				for i := n - 1; i >= 0; i-- {
					pts = append(pts, MPoint{T: now - i*step, V: F64(float64(n-i) * 0.5)})
				}
				return HistCase{L: l, Now: now, Ops: []Op{
					{Kind: "batch", ID: 0, Points: pts, Windows: []Window{{ID: 0, From: now - n*step, Until: now}, {ID: 0, From: now - 70000*step, Until: now - 60000*step}}},
					{Kind: "advance", Advance: 3 * step},
					{Kind: "update", ID: 0, T: now + 3*step, V: 7},
					{Kind: "reopen"},
				}}
			}
			return []HistCase{mk(65537, 1, nil), mk(70001, 2, []Arch{{Step: 120, Points: 1200}})}
		},
	})
}
