package props

import (
	"bytes"
	"errors"
	"fmt"
	"math"
	"os"
	"path/filepath"
	"strings"
	"syscall"
	"testing"
	"time"

	wt "github.com/hnakamur/whispertool"
	"github.com/hnakamur/whispertool/cmd"
	"pgregory.net/rapid"
)

// C08 - copy makes the destination equal to the source over the requested window.
type CopyPair struct {
	// SrcLink: the source path is a symbolic link to the real file (kept outside the source base)
	SrcLink    bool        `json:"src_link,omitempty"`
	Rel        string      `json:"rel"`
	Src        FileSpec    `json:"src"`
	DestMode   string      `json:"dest_mode"` // absent | fresh | same | perturbed | random | coarser-equal
	DestWrites []SlotWrite `json:"dest_writes,omitempty"`
}

type C08Case struct {
	Now       int64      `json:"now"`
	Pairs     []CopyPair `json:"pairs"`
	Pattern   string     `json:"pattern,omitempty"` // glob mode when non-empty
	DestRel   string     `json:"dest_rel,omitempty"`
	ReqLayout *Layout    `json:"req_layout,omitempty"` // requested layout (nil: the source's)
	From      int64      `json:"from"`
	Until     int64      `json:"until"`
	ArchiveID int        `json:"archive_id"`
	CopyNaN   bool       `json:"copy_nan"`
	// MustFail: "" | "bad-archive" | "missing-source": the copy has to be refused; a destination that did
	// not exist is then either still absent or a valid file with the requested layout and no points
	MustFail string `json:"must_fail,omitempty"`
	// Contended: a glob copy (default window) at the REAL clock over two files; the first destination's lock is
	// held for over two steps, and the second source has a point one step after the start of the run
	Contended *Layout `json:"contended,omitempty"`
}

// runC08Contended: every file of a glob copy is copied up to ITS OWN now, so a source point that appeared
// before the second file was read must arrive in the destination.
func runC08Contended(l Layout, ev *Evid) (fs []Finding) {
	dir := scratchDir()
	defer os.RemoveAll(dir)
	now := time.Now().Unix()
	spec := FileSpec{L: l, Fill: minI64(l.Archives[0].Points, 20), FillBase: 1}
	for _, side := range []string{"src", "dest"} {
		for _, n := range []string{"a.wsp", "b.wsp"} {
			if err := buildFile(filepath.Join(dir, side, n), spec, now); err != nil {
				return []Finding{{Property: "C08", Key: "setup", Detail: err.Error()}}
			}
		}
	}
	st := l.Archives[0].Step
	late := alignDown(now, st) + st
	if err := modifyFile(filepath.Join(dir, "src", "b.wsp"), []SlotWrite{{Arch: 0, T: late, V: 77}}, late+st); err != nil {
		return []Finding{{Property: "C08", Key: "setup", Detail: err.Error()}}
	}
	hold := time.Duration(2*st)*time.Second + 300*time.Millisecond
	held, release := make(chan struct{}), make(chan struct{})
	go func() {
		fd, err := syscall.Open(filepath.Join(dir, "dest", "a.wsp"), syscall.O_RDONLY, 0)
		if err == nil {
			syscall.Flock(fd, syscall.LOCK_EX)
		}
		close(held)
		time.Sleep(hold)
		if err == nil {
			syscall.Close(fd)
		}
		close(release)
	}()
	<-held
	cc := &cmd.CopyCommand{SrcBase: filepath.Join(dir, "src"), SrcRelPath: "*.wsp", DestBase: filepath.Join(dir, "dest"), AggregationMethod: wt.AggregationMethod(l.Method), XFilesFactor: l.XFF,
		ArchiveInfoList: wtArchives(l), ArchiveID: cmd.ArchiveIDAll, TextOut: ""}
	var err error
	pm := guard(func() { err = cc.Execute() })
	<-release
	if pm != "" || err != nil {
		return []Finding{{Property: "C08", Key: "copy-error", Detail: fmt.Sprintf("contended glob copy failed: %v %s", err, pm)}}
	}
	end := time.Now().Unix()
	r, rerr := readArchives(filepath.Join(dir, "dest", "b.wsp"), l, late-st, late, end)
	if rerr != nil || r[0].Nil || len(r[0].S.Values) < 1 || r[0].S.From != late || r[0].S.Values[0] != 77 {
		return []Finding{{Property: "C08", Key: "slot-not-copied", Detail: fmt.Sprintf("glob copy (%s, default window) whose first file took %v: the second source file has the value 77 at t=%d (%d s after the start of the run, before that file was copied), the destination has %v (err %v)", l, hold, late, late-now, r[0].S.Values, rerr)}}
	}
	ev.Count(uint64(now), true, "lock-contended-glob-late-slot")
	return nil
}

func layoutsEqualArchives(a, b Layout) bool {
	if len(a.Archives) != len(b.Archives) {
		return false
	}
	for i := range a.Archives {
		if a.Archives[i] != b.Archives[i] {
			return false
		}
	}
	return true
}

// buildDest prepares the destination of one pair; returns whether it exists.
func buildDest(path string, p CopyPair, srcPath string, now int64) (bool, error) {
	switch p.DestMode {
	case "absent":
		return false, nil
	case "fresh":
		return true, buildFile(path, FileSpec{L: p.Src.L}, now)
	case "subtle-mismatch":
		// same archive count and steps, a longer last archive: invisible in a narrow window or when
		// another archive is selected, but still a layout mismatch
		return true, buildFile(path, FileSpec{L: subtleLayoutVariant(p.Src.L), Writes: p.DestWrites}, now)
	case "same":
		return true, buildFile(path, p.Src, now)
	case "perturbed":
		if err := buildFile(path, p.Src, now); err != nil {
			return true, err
		}
		return true, modifyFile(path, p.DestWrites, now)
	case "random":
		return true, buildFile(path, FileSpec{L: p.Src.L, Writes: p.DestWrites}, now)
	case "near-equal":
		// a copy of the source in which every value is replaced by a neighbouring one: the next float up or
		// down, a relative 1e-12 away, an infinity where the source is finite - different values all the same
		if err := buildFile(path, p.Src, now); err != nil {
			return true, err
		}
		src, err := readArchives(srcPath, p.Src.L, 0, now, now)
		if err != nil {
			return true, err
		}
		var near []SlotWrite
		for a := len(p.Src.L.Archives) - 1; a >= 0; a-- {
			r := src[a]
			if r.Nil || r.Err != nil {
				continue
			}
			for i, v := range r.S.Values {
				if v != v {
					continue
				}
				var nv float64
				switch (i + a) % 4 {
				case 0:
					nv = math.Nextafter(v, math.Inf(1))
				case 1:
					nv = math.Nextafter(v, math.Inf(-1))
				case 2:
					nv = v * (1 + 1e-12)
					if nv == v {
						nv = math.Nextafter(v, math.Inf(1))
					}
				default:
					nv = math.Inf(1)
					if math.IsInf(v, 1) {
						nv = math.MaxFloat64
					}
				}
				near = append(near, SlotWrite{Arch: a, T: r.S.From + int64(i)*r.S.Step, V: F64(nv)})
			}
		}
		// coarsest first, so that the finer writes' propagation is overwritten by nothing: re-apply coarser ones last
		if err := modifyFile(path, near, now); err != nil {
			return true, err
		}
		var again []SlotWrite
		for _, w := range near {
			if w.Arch > 0 {
				again = append(again, w)
			}
		}
		for i, j := 0, len(again)-1; i < j; i, j = i+1, j-1 {
			again[i], again[j] = again[j], again[i]
		}
		return true, modifyFile(path, again, now)
	case "coarser-equal":
		// equal to the source in every coarser archive, different in finer slots: apply the
		// source's writes, perturb archive 0, then restore archives 1.. from the source's content
		if err := buildFile(path, p.Src, now); err != nil {
			return true, err
		}
		var fine []SlotWrite
		for _, w := range p.DestWrites {
			if w.Arch == 0 {
				fine = append(fine, w)
			}
		}
		if err := modifyFile(path, fine, now); err != nil {
			return true, err
		}
		src, err := readArchives(srcPath, p.Src.L, 0, now, now)
		if err != nil {
			return true, err
		}
		var restore []SlotWrite
		for a := 1; a < len(p.Src.L.Archives); a++ {
			r := src[a]
			if r.Nil || r.Err != nil {
				continue
			}
			for i, v := range r.S.Values {
				if v == v {
					restore = append(restore, SlotWrite{Arch: a, T: r.S.From + int64(i)*r.S.Step, V: F64(v)})
				}
			}
		}
		return true, modifyFile(path, restore, now)
	}
	return false, fmt.Errorf("unknown dest mode %q", p.DestMode)
}

func runC08(c C08Case, ev *Evid) (fs []Finding) {
	if c.Contended != nil {
		return runC08Contended(*c.Contended, ev)
	}
	add := func(key, format string, args ...interface{}) {
		fs = append(fs, Finding{Property: "C08", Key: key, Detail: fmt.Sprintf(format, args...)})
	}
	dir := scratchDir()
	defer os.RemoveAll(dir)
	srcBase, destBase := filepath.Join(dir, "src"), filepath.Join(dir, "dest")
	os.MkdirAll(destBase, 0755)
	now := c.Now
	until := effUntil(c.Until, now)
	srcL := c.Pairs[0].Src.L
	req := srcL
	if c.ReqLayout != nil {
		req = *c.ReqLayout
	}
	type pairState struct {
		srcPath, destPath string
		existed           bool
		srcBytes, destB   []byte
		S, D              []fetchResult
	}
	sts := make([]*pairState, len(c.Pairs))
	destRelOf := func(i int) string {
		if c.Pattern == "" && c.DestRel != "" {
			return c.DestRel
		}
		return c.Pairs[i].Rel
	}
	for i, p := range c.Pairs {
		st := &pairState{srcPath: filepath.Join(srcBase, p.Rel), destPath: filepath.Join(destBase, destRelOf(i))}
		sts[i] = st
		if p.SrcLink {
			target := filepath.Join(dir, "linked", fmt.Sprintf("t%d.wsp", i))
			if err := buildFile(target, p.Src, now); err != nil {
				add("setup", "building source %s: %v", p.Rel, err)
				return
			}
			os.MkdirAll(filepath.Dir(st.srcPath), 0755)
			if err := os.Symlink(target, st.srcPath); err != nil {
				add("setup", "symlink: %v", err)
				return
			}
		} else if err := buildFile(st.srcPath, p.Src, now); err != nil {
			add("setup", "building source %s: %v", p.Rel, err)
			return
		}
		ex, err := buildDest(st.destPath, p, st.srcPath, now)
		if err != nil {
			add("setup", "building destination %s: %v", p.Rel, err)
			return
		}
		st.existed = ex
		st.srcBytes, _ = os.ReadFile(st.srcPath)
		if ex {
			st.destB, _ = os.ReadFile(st.destPath)
			st.D, _ = readArchives(st.destPath, srcL, c.From, until, now)
		}
		st.S, _ = readArchives(st.srcPath, srcL, c.From, until, now)
	}
	if c.MustFail == "missing-source" {
		os.Remove(sts[0].srcPath)
	}
	mk := func() *cmd.CopyCommand {
		cc := &cmd.CopyCommand{SrcBase: srcBase, DestBase: destBase, AggregationMethod: wt.AggregationMethod(req.Method), XFilesFactor: req.XFF,
			ArchiveInfoList: wtArchives(req), From: wt.Timestamp(c.From), Until: wt.Timestamp(c.Until), ArchiveID: c.ArchiveID,
			TextOut: filepath.Join(dir, "out.txt"), CopyNaN: c.CopyNaN}
		if c.Pattern != "" {
			cc.SrcRelPath = c.Pattern
		} else {
			cc.SrcRelPath = c.Pairs[0].Rel
			cc.DestRelPath = c.DestRel
		}
		return cc
	}
	err, pm := runCommand(now, mk())
	desc := fmt.Sprintf("copy now=%d from=%d until=%d archive=%d copyNaN=%v pattern=%q layout=%s", now, c.From, c.Until, c.ArchiveID, c.CopyNaN, c.Pattern, srcL)
	if pm != "" {
		add("copy-panic", "%s: panicked: %s", desc, pm)
		return
	}
	if c.MustFail != "" {
		if err == nil {
			add("refusal-missing", "%s: the copy must be refused (%s) but reported success", desc, c.MustFail)
			return
		}
		for i, st := range sts {
			b, rerr := os.ReadFile(st.destPath)
			if rerr != nil {
				continue
			}
			if st.existed {
				if !bytes.Equal(b, st.destB) {
					add("refused-copy-wrote", "%s: refused (%v) but the existing destination %s changed", desc, err, c.Pairs[i].Rel)
					return
				}
				continue
			}
			f, perr := ParseWsp(b)
			if perr != nil || !bytes.Equal(b[:len(EncodeLayoutHeader(req))], EncodeLayoutHeader(req)) {
				add("refused-copy-left-garbage", "%s: refused (%v) and left a destination that is not a whisper file with the requested layout (%v)", desc, err, perr)
				return
			}
			for a := range f.Slots {
				for _, sl := range f.Slots[a] {
					if sl.Interval != 0 {
						add("refused-copy-wrote", "%s: refused (%v) but points were written into the new destination", desc, err)
						return
					}
				}
			}
		}
		ev.Count(HashJSON(c), true, "must-fail="+c.MustFail)
		return nil
	}
	// source never modified
	for i, st := range sts {
		if b, _ := os.ReadFile(st.srcPath); !bytes.Equal(b, st.srcBytes) {
			add("source-modified", "%s: source %s changed", desc, c.Pairs[i].Rel)
			return
		}
	}
	for i, st := range sts {
		if c.Pairs[i].DestMode != "subtle-mismatch" {
			continue
		}
		if err == nil {
			add("mismatch-not-reported", "%s: the destination's layout %s differs from the source's, copy reported success", desc, subtleLayoutVariant(srcL))
			return
		}
		if b, _ := os.ReadFile(st.destPath); !bytes.Equal(b, st.destB) {
			add("mismatch-wrote-points", "%s: layout mismatch reported (%v) but the destination was modified (first difference at byte %d)", desc, err, firstDiff(b, st.destB))
			return
		}
		ev.Count(HashJSON(c), true, "layout-mismatch", "subtle-mismatch")
		return nil
	}
	mismatch := !layoutsEqualArchives(req, srcL)
	if mismatch {
		// an existing destination has the source's layout here; only absent ones are created with the mismatching request
		anyAbsent := false
		for _, st := range sts {
			if !st.existed {
				anyAbsent = true
			}
		}
		if anyAbsent {
			if err == nil {
				add("mismatch-not-reported", "%s: destination created with layout %s that differs from the source's, copy reported success", desc, req)
				return
			}
			for i, st := range sts {
				if st.existed {
					// files before the failing one may have been copied legitimately; only check the ones never reached is impossible to know: check unchanged-or-correct below
					continue
				}
				if b, rerr := os.ReadFile(st.destPath); rerr == nil {
					f, perr := ParseWsp(b)
					if perr != nil {
						add("mismatch-wrote-garbage", "%s: pair %d: destination left unparsable: %v", desc, i, perr)
						return
					}
					for a := range f.Slots {
						for _, s := range f.Slots[a] {
							if s.Interval != 0 {
								add("mismatch-wrote-points", "%s: pair %d: points were written into a destination whose layout does not match", desc, i)
								return
							}
						}
					}
				}
			}
			ev.Count(HashJSON(c), true, "layout-mismatch")
			return nil
		}
	}
	if err != nil {
		add("copy-error", "%s: failed: %v", desc, err)
		return
	}
	// text output: the clock the command used
	recs := parseLTSV(readText(filepath.Join(dir, "out.txt")))
	for _, r := range recs {
		if v, ok := r["now"]; ok {
			if tv, ok2 := parseTime(v); !ok2 || tv != now {
				add("harness-clock", "command ran at %q, harness clock %d", v, now)
				return
			}
		}
	}
	copied, coarseEqualAboveFiner, nanHole, edgeInside := 0, 0, 0, 0
	for i, st := range sts {
		p := c.Pairs[i]
		b, rerr := os.ReadFile(st.destPath)
		if rerr != nil {
			add("dest-missing", "%s: pair %s: destination does not exist after a successful copy", desc, p.Rel)
			return
		}
		f, perr := ParseWsp(b)
		if perr != nil {
			add("dest-unparsable", "%s: %v", desc, perr)
			return
		}
		if !st.existed {
			want := EncodeLayoutHeader(req)
			if !bytes.Equal(b[:len(want)], want) {
				add("dest-created-layout", "%s: created destination header %x, requested layout encodes as %x", desc, b[:len(want)], want)
				return
			}
		} else if hl := 16 + 12*len(srcL.Archives); len(b) != len(st.destB) || !bytes.Equal(b[:hl], st.destB[:hl]) {
			add("dest-header-changed", "%s: the existing destination's header or length changed (a file's header and length are fixed at creation): %x -> %x", desc, st.destB[:hl], b[:minInt(hl, len(b))])
			return
		}
		_ = f
		after, _ := readArchives(st.destPath, srcL, c.From, until, now)
		for a := range srcL.Archives {
			if c.ArchiveID != cmd.ArchiveIDAll && c.ArchiveID != a {
				continue
			}
			S := st.S[a]
			if S.Nil || S.Err != nil || S.Panic != "" {
				continue
			}
			A := after[a]
			if A.Nil || A.Err != nil || len(A.S.Values) != len(S.S.Values) || A.S.From != S.S.From {
				add("dest-window", "%s: archive %d: destination window after copy does not match the source window", desc, a)
				return
			}
			if S.S.From > alignDown(now-srcL.Archives[a].Ret(), srcL.Archives[a].Step)+srcL.Archives[a].Step {
				edgeInside++
			}
			for k, sv := range S.S.Values {
				av := A.S.Values[k]
				tt := S.S.From + int64(k)*S.S.Step
				var dv float64 = math.NaN()
				if st.existed && st.D != nil && !st.D[a].Nil && len(st.D[a].S.Values) == len(S.S.Values) {
					dv = st.D[a].S.Values[k]
				}
				if sv == sv {
					if !(av == sv) && !(sv == 0 && av == 0) {
						key := "slot-not-copied"
						if a > 0 && sameF(dv, sv) {
							key = "coarser-slot-reaggregated"
						}
						add(key, "%s: pair %s archive %d slot t=%d: source %s, destination before %s, after %s", desc, p.Rel, a, tt, fstr(sv), fstr(dv), fstr(av))
						if len(fs) > 2 {
							return
						}
						continue
					}
					if !sameF(dv, sv) {
						copied++
					} else if a > 0 {
						coarseEqualAboveFiner++
					}
				} else {
					nanHole++
					if c.CopyNaN && av == av {
						add("nan-not-copied", "%s: pair %s archive %d slot t=%d: source has no value, copy-nan requested, destination still holds %s", desc, p.Rel, a, tt, fstr(av))
						if len(fs) > 2 {
							return
						}
					}
				}
			}
		}
	}
	if len(fs) > 0 {
		return
	}
	// repeating the same copy changes nothing
	before := make([][]byte, len(sts))
	for i, st := range sts {
		before[i], _ = os.ReadFile(st.destPath)
	}
	err2, pm2 := runCommand(now, mk())
	if pm2 != "" || err2 != nil {
		add("repeat-fails", "%s: the repeated copy failed: %v %s", desc, err2, pm2)
		return
	}
	for i, st := range sts {
		if b, _ := os.ReadFile(st.destPath); !bytes.Equal(b, before[i]) {
			add("repeat-changes", "%s: pair %s: repeating the copy changed the destination (first difference at byte %d)", desc, c.Pairs[i].Rel, firstDiff(b, before[i]))
			return
		}
	}
	// a copy-nan copy over the same window after the plain one: now NaN where the source has none
	if !c.CopyNaN {
		cc := mk()
		cc.CopyNaN = true
		if err3, pm3 := runCommand(now, cc); err3 != nil || pm3 != "" {
			add("followup-copy-nan-fails", "%s: a copy -copy-nan after the plain copy failed: %v %s", desc, err3, pm3)
			return
		}
		for i, st := range sts {
			after, _ := readArchives(st.destPath, srcL, c.From, until, now)
			for a := range srcL.Archives {
				if (c.ArchiveID != cmd.ArchiveIDAll && c.ArchiveID != a) || st.S[a].Nil || st.S[a].Err != nil || after[a].Nil {
					continue
				}
				for k, sv := range st.S[a].S.Values {
					if k < len(after[a].S.Values) && sv != sv && after[a].S.Values[k] == after[a].S.Values[k] {
						add("nan-not-copied", "%s: pair %s archive %d slot t=%d: after a plain copy followed by copy -copy-nan the destination still holds %s where the source has no value", desc, c.Pairs[i].Rel, a, st.S[a].S.From+int64(k)*st.S[a].S.Step, fstr(after[a].S.Values[k]))
						return
					}
				}
			}
		}
	}
	// diff over the same window / selection is clean in the copied slots (all slots with copy-nan)
	dc := &cmd.DiffCommand{SrcBase: srcBase, DestBase: destBase, From: wt.Timestamp(c.From), Until: wt.Timestamp(c.Until), ArchiveID: c.ArchiveID, TextOut: filepath.Join(dir, "diff.txt")}
	if c.Pattern != "" {
		dc.SrcRelPath = c.Pattern
	} else {
		dc.SrcRelPath = c.Pairs[0].Rel
		dc.DestRelPath = c.DestRel
	}
	derr, dpm := runCommand(now, dc)
	if dpm != "" {
		add("diff-panic", "%s: diff after copy panicked: %s", desc, dpm)
		return
	}
	if derr != nil && !errors.Is(derr, cmd.ErrDiffFound) {
		add("diff-error", "%s: diff after copy failed: %v", desc, derr)
		return
	}
	if derr != nil {
		add("diff-not-clean", "%s: diff after the copy (incl. a copy -copy-nan pass) reports a difference:\n%s", desc, tail(readText(filepath.Join(dir, "diff.txt")), 600))
		return
	}
	// later on (window until now): every source gets a newer point, the clock has moved on, and the SAME copy value
	// (with -copy-nan, so that every slot of the window is the source's) is executed once more: "until now" means
	// the now of each run, and a fresh diff at the later clock must be clean
	laterRun := false
	if c.Until == 0 && c.From <= now {
		now2 := now + srcL.Archives[0].Step*int64(1+HashJSON(c)%3)
		if now2 < 1<<32-srcL.MaxRet()-2*srcL.Archives[len(srcL.Archives)-1].Step {
			laterRun = true
			same := *mk()
			same.CopyNaN = true
			same.TextOut = ""
			var err4 error
			pm4 := atClock(now, func() { err4 = same.Execute() })
			if err4 == nil && pm4 == "" {
				for _, pr := range c.Pairs {
					if err := modifyFile(filepath.Join(srcBase, pr.Rel), []SlotWrite{{Arch: 0, T: now2, V: 1}}, now2); err != nil {
						add("setup", "later write: %v", err)
						return
					}
				}
				pm4 = atClock(now2, func() { err4 = same.Execute() })
			}
			if err4 != nil || pm4 != "" {
				add("later-run-fails", "%s: the same copy value executed again at clock %d (after a newer point was stored in every source) failed: %v %s", desc, now2, err4, pm4)
				return
			}
			d2 := *dc
			d2.TextOut = filepath.Join(dir, "diff-later.txt")
			var derr2 error
			if dpm2 := atClock(now2, func() { derr2 = d2.Execute() }); dpm2 != "" {
				add("diff-panic", "%s: diff at the later clock %d panicked: %s", desc, now2, dpm2)
				return
			}
			if derr2 != nil {
				add("later-run-incomplete", "%s: the same copy value executed again at clock %d (after a point at t=%d was stored in every source) leaves diff with: %v\n%s", desc, now2, now2, derr2, tail(readText(filepath.Join(dir, "diff-later.txt")), 600))
				return
			}
		}
	}
	fresh := false
	for i := range sts {
		if !sts[i].existed || c.Pairs[i].DestMode == "fresh" {
			fresh = true
		}
	}
	nontrivial := copied > 0 && (coarseEqualAboveFiner > 0 || nanHole > 0 || fresh || edgeInside > 0)
	cls := []string{}
	for _, p := range c.Pairs {
		cls = append(cls, "dest="+p.DestMode)
	}
	if c.Pattern != "" {
		cls = append(cls, "glob")
	}
	if c.CopyNaN {
		cls = append(cls, "copy-nan")
	}
	if c.ArchiveID >= 0 {
		cls = append(cls, "single-archive")
	}
	if c.From == 0 && c.Until == 0 {
		cls = append(cls, "default-window")
	}
	if laterRun {
		cls = append(cls, "executed-again-later")
	}
	if copied > 0 {
		cls = append(cls, "slots-copied")
	}
	if coarseEqualAboveFiner > 0 {
		cls = append(cls, "coarser-equal-before")
	}
	if nanHole > 0 {
		cls = append(cls, "nan-hole-in-window")
	}
	if edgeInside > 0 {
		cls = append(cls, "window-edge-inside-archive")
	}
	ev.Count(HashJSON(c), nontrivial, cls...)
	if nontrivial && ev.WantSample() && len(c.Pairs) == 1 && len(c.Pairs[0].Src.Writes) < 12 {
		ev.Sample(c)
	}
	return nil
}

var relNames = []string{"a.wsp", "m1/x.wsp", "m1/y.wsp", "m2/z.wsp", "m2/sub/w.wsp"}

func genCopyPair(t *rapid.T, l Layout, now int64, rel string, allowCopyNaNVals bool) CopyPair {
	p := CopyPair{Rel: rel}
	nanPct := 0
	if rapid.Bool().Draw(t, "nanHoles") {
		nanPct = 10
	}
	p.Src = genSpec(t, l, now, valGeneral, nanPct)
	p.DestMode = rapid.SampledFrom([]string{"absent", "fresh", "same", "perturbed", "perturbed", "random", "coarser-equal", "coarser-equal", "near-equal"}).Draw(t, "destMode")
	switch p.DestMode {
	case "perturbed", "random", "coarser-equal":
		p.DestWrites = genWrites(t, l, now, valGeneral, 0)
		if p.DestMode == "coarser-equal" {
			// make sure some finest-archive slots differ
			n := rapid.IntRange(1, 4).Draw(t, "fineDiffs")
			for i := 0; i < n; i++ {
				age := rapid.Int64Range(0, minI64(l.Archives[0].Ret()-1, 40*l.Archives[0].Step)).Draw(t, "fineAge")
				p.DestWrites = append(p.DestWrites, SlotWrite{Arch: 0, T: now - age, V: F64(genValue(t))})
			}
		}
	}
	return p
}

// subtleLayoutVariant is a layout that differs from l in a way narrow windows / single-archive selections do
// not show; which way is a pure function of l: the last archive 7 points longer (same count and steps), l
// without its last archive (the variant is a strict prefix of l), or l plus one coarser archive (l is a
// strict prefix of the variant).
func subtleLayoutVariant(l Layout) Layout {
	v := Layout{Method: l.Method, XFF: l.XFF, Archives: append([]Arch(nil), l.Archives...)}
	n := len(v.Archives)
	last := v.Archives[n-1]
	h := int64(n)
	for _, a := range l.Archives {
		h = h*31 + a.Step*7 + a.Points
	}
	switch emod(h, 3) {
	case 1:
		if n >= 2 {
			v.Archives = v.Archives[:n-1]
			return v
		}
	case 2:
		if last.Points >= 2 && last.Step*2*last.Points < 1<<30 {
			v.Archives = append(v.Archives, Arch{Step: last.Step * 2, Points: last.Points})
			return v
		}
	}
	add := int64(7)
	for add > 0 && last.Step*(last.Points+add) > 1<<30 {
		add--
	}
	if add == 0 {
		// (a last archive at the retention limit: shorten it instead, or drop it)
		if n >= 2 {
			v.Archives = v.Archives[:n-1]
			return v
		}
		if last.Points > 1 {
			v.Archives[n-1].Points--
			return v
		}
	}
	v.Archives[n-1].Points += add
	return v
}

func minI64(a, b int64) int64 {
	if a < b {
		return a
	}
	return b
}

func genCLILayout(t *rapid.T) Layout {
	o := defaultLayoutOpts()
	o.AllowMultiPage = false
	o.MaxArchives = 3
	o.HugePct = 1 // a finest archive at / beyond the sizes at which plausible block, chunk and batch buffers end
	return genLayout(t, o)
}

func genC08(t *rapid.T) C08Case {
	l := genCLILayout(t)
	now := genNowRealistic(t, l)
	c := C08Case{Now: now, ArchiveID: -1}
	if rapid.IntRange(0, 3).Draw(t, "glob") == 0 {
		n := rapid.IntRange(2, 4).Draw(t, "files")
		for i := 0; i < n; i++ {
			c.Pairs = append(c.Pairs, genCopyPair(t, l, now, relNames[1+i], true))
		}
		c.Pattern = rapid.SampledFrom([]string{"*/*.wsp", "m?/*.wsp", "m1/*.wsp", "m[12]/[xyz].wsp"}).Draw(t, "pattern")
		// keep only the pairs the pattern matches (sub/w.wsp never matches these)
		var kept []CopyPair
		for _, p := range c.Pairs {
			if ok, _ := filepath.Match(c.Pattern, p.Rel); ok {
				kept = append(kept, p)
			}
		}
		if len(kept) == 0 {
			kept = c.Pairs[:1]
			c.Pattern = strings.Replace(kept[0].Rel, "x", "?", 1)
		}
		c.Pairs = kept
		if len(c.Pairs) >= 2 && rapid.IntRange(0, 5).Draw(t, "globSubtleMismatch") == 0 {
			// an earlier matched file whose destination is created by this run, then a later one whose existing
			// destination has another layout: the run must fail and leave that destination as it was (round 10, C08s)
			last := len(c.Pairs) - 1
			if rapid.IntRange(0, 3).Draw(t, "firstAbsent") != 0 {
				c.Pairs[0].DestMode = "absent"
			}
			c.Pairs[last].DestMode = "subtle-mismatch"
			c.Pairs[last].DestWrites = genWrites(t, subtleLayoutVariant(l), now, valGeneral, 0)
		}
	} else {
		c.Pairs = []CopyPair{genCopyPair(t, l, now, rapid.SampledFrom(relNames).Draw(t, "rel"), true)}
		if rapid.IntRange(0, 11).Draw(t, "subtleMismatch") == 0 {
			c.Pairs[0].DestMode = "subtle-mismatch"
			c.Pairs[0].DestWrites = genWrites(t, subtleLayoutVariant(l), now, valGeneral, 0)
		}
		if rapid.IntRange(0, 3).Draw(t, "rename") == 0 {
			c.DestRel = "renamed/" + c.Pairs[0].Rel
		}
	}
	c.From, c.Until = genCLIWindow(t, l, now)
	if rapid.IntRange(0, 2).Draw(t, "oneArchive") == 0 {
		c.ArchiveID = rapid.IntRange(0, len(l.Archives)-1).Draw(t, "archive")
	}
	c.CopyNaN = rapid.Bool().Draw(t, "copyNaN")
	if c.Pattern != "" {
		for i := range c.Pairs {
			c.Pairs[i].SrcLink = rapid.IntRange(0, 4).Draw(t, "srcLink") == 0
		}
	}
	if c.Pattern == "" && c.Pairs[0].DestMode != "subtle-mismatch" && rapid.IntRange(0, 11).Draw(t, "mustFail") == 0 {
		c.MustFail = rapid.SampledFrom([]string{"bad-archive", "missing-source"}).Draw(t, "mustFailKind")
		if c.MustFail == "bad-archive" {
			c.ArchiveID = len(l.Archives) + rapid.IntRange(0, 2).Draw(t, "badBy")
		}
		return c
	}
	if c.Pairs[0].DestMode == "subtle-mismatch" {
		if rapid.Bool().Draw(t, "reqIsDest") {
			l2 := subtleLayoutVariant(l)
			c.ReqLayout = &l2
		}
	} else if rapid.IntRange(0, 11).Draw(t, "mismatch") == 0 {
		l2 := genCLILayout(t)
		c.ReqLayout = &l2
	} else if rapid.Bool().Draw(t, "otherMeta") {
		// same archives, different method / xff for creation: allowed
		l2 := l
		l2.Method = rapid.IntRange(1, 6).Draw(t, "reqMethod")
		c.ReqLayout = &l2
	}
	return c
}

func TestC08(t *testing.T) {
	RunProperty(t, Property[C08Case]{
		NoteCases:   true,
		ID:          "C08",
		Rule:        "rapid-generated copy invocations at a controlled wall clock (synctest bubble): layout x method x xff; source contents sparse/dense with NaN holes and coarser archives written by name (not the aggregate of finer ones); destination absent / fresh / identical / perturbed / unrelated / equal in every coarser archive but different in finer slots; windows default, narrow, past, beyond the finest retention, degenerate, explicit; all archives or one; copy-nan on/off; single file (optionally renamed) or glob over 2-4 files in nested directories; requested layout equal, differing only in method/xff, or mismatching. Oracle (library fetches at the same clock): every selected slot of the window holds the source's value where it has one, NaN where it has none under copy-nan; source bytes unchanged; created destinations carry the requested header; a repeated copy leaves the bytes unchanged; diff afterwards lists no slot where the source has a value (and nothing at all under copy-nan); mismatch => error and no points written (also when the mismatching destination belongs to a later file of a glob run that created an earlier file's destination: it must still be there, byte for byte). Non-trivial: >=1 slot actually copied AND (a coarser slot equal before the copy above differing finer slots, or a NaN hole in the window, or a fresh/absent destination, or a window edge inside an archive). Distinct = hash of the case.",
		Assumptions: []string{"+0 vs -0 is not distinguished (Z4)", "slots where the source has no value are unconstrained without copy-nan", "realistic clocks 2017-2030"},
		Gen:         genC08,
		Run:         runC08,
		Fixed: func() []C08Case {
			l := Layout{Archives: []Arch{{Step: 1, Points: 60}, {Step: 60, Points: 60}}, Method: 1, XFF: 0.5}
			return []C08Case{{Contended: &l}}
		},
	})
}
