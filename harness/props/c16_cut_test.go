package props

// Listing-cut cases of C16: the source is a whispertool server reached through a relay that passes every request
// on, but ends the reply to a name listing (/files, /items) after some complete lines although the announced
// Content-Length promises more - a server killed or timing out while it streams the listing, a proxy dropping the
// connection. The command cannot know the names it did not get: it must report an error, not success.

import (
	"bytes"
	"fmt"
	"io"
	"net/http"
	"net/http/httptest"
	"os"
	"path/filepath"
	"sync/atomic"

	wt "github.com/hnakamur/whispertool"
	"github.com/hnakamur/whispertool/cmd"
)

type C16Cut struct {
	L     Layout `json:"layout"`
	Now   int64  `json:"now"`
	Cmd   string `json:"cmd"`   // copy | diff | sum
	Names int    `json:"names"` // files (copy, diff) or items (sum) the listing has
	Keep  int    `json:"keep"`  // complete lines delivered before the connection ends (1 <= Keep < Names)
}

var cutCounter int64

func runC16Cut(c C16Cut, ev *Evid) (fs []Finding) {
	root, real, err := startServer()
	if err != nil {
		panic("cannot start the whispertool server: " + err.Error())
	}
	sub := fmt.Sprintf("cut%d", atomic.AddInt64(&cutCounter, 1))
	defer os.RemoveAll(filepath.Join(root, sub))
	dir := scratchDir()
	defer os.RemoveAll(dir)
	spec := FileSpec{L: c.L, Writes: []SlotWrite{{Arch: 0, T: c.Now, V: 1}}}
	for i := 0; i < c.Names; i++ {
		rel := fmt.Sprintf("s1/f%d.wsp", i+1)
		if c.Cmd == "sum" {
			rel = fmt.Sprintf("i%d/f1.wsp", i+1)
		}
		if err := buildFile(filepath.Join(root, sub, rel), spec, c.Now); err != nil {
			return []Finding{{Property: "C16", Key: "setup", Detail: err.Error()}}
		}
		if c.Cmd == "diff" {
			if err := buildFile(filepath.Join(dir, "dest", sub, rel), spec, c.Now); err != nil {
				return []Finding{{Property: "C16", Key: "setup", Detail: err.Error()}}
			}
		}
	}
	var cuts int64
	relay := httptest.NewServer(http.HandlerFunc(func(w http.ResponseWriter, r *http.Request) {
		resp, err := http.Get(real + r.URL.Path + "?" + r.URL.RawQuery)
		if err != nil {
			http.Error(w, err.Error(), 502)
			return
		}
		defer resp.Body.Close()
		body, _ := io.ReadAll(resp.Body)
		for k, v := range resp.Header {
			if k != "Content-Length" {
				w.Header()[k] = v
			}
		}
		if r.URL.Path != "/files" && r.URL.Path != "/items" {
			w.WriteHeader(resp.StatusCode)
			w.Write(body)
			return
		}
		lines := bytes.SplitAfter(body, []byte("\n"))
		if len(lines) <= c.Keep {
			w.WriteHeader(resp.StatusCode)
			w.Write(body)
			return
		}
		hj, ok := w.(http.Hijacker)
		if !ok {
			http.Error(w, "no hijacker", 500)
			return
		}
		conn, rw, err := hj.Hijack()
		if err != nil {
			return
		}
		atomic.AddInt64(&cuts, 1)
		fmt.Fprintf(rw, "HTTP/1.1 200 OK\r\nContent-Type: %s\r\nContent-Length: %d\r\nConnection: close\r\n\r\n", resp.Header.Get("Content-Type"), len(body))
		rw.Write(bytes.Join(lines[:c.Keep], nil))
		rw.Flush()
		conn.Close()
	}))
	defer relay.Close()
	var cc cmd.Command
	switch c.Cmd {
	case "copy":
		cc = &cmd.CopyCommand{SrcBase: relay.URL, SrcRelPath: sub + "/s1/*.wsp", DestBase: filepath.Join(dir, "dest"), AggregationMethod: wt.AggregationMethod(c.L.Method), XFilesFactor: c.L.XFF,
			ArchiveInfoList: wtArchives(c.L), ArchiveID: cmd.ArchiveIDAll, TextOut: ""}
	case "diff":
		cc = &cmd.DiffCommand{SrcBase: relay.URL, SrcRelPath: sub + "/s1/*.wsp", DestBase: filepath.Join(dir, "dest"), ArchiveID: cmd.ArchiveIDAll, TextOut: ""}
	default:
		cc = &cmd.SumCommand{SrcBase: relay.URL, ItemPattern: sub + "/i*", SrcPattern: "*.wsp", ArchiveID: cmd.ArchiveIDAll, TextOut: ""}
	}
	rerr, pm := runCommand(c.Now, cc)
	desc := fmt.Sprintf("%s from a server whose listing of %d names ends after %d complete lines (Content-Length announces all of it), layout %s", c.Cmd, c.Names, c.Keep, c.L)
	if pm != "" {
		return []Finding{{Property: "C16", Key: "panic", Detail: desc + ": panicked: " + pm}}
	}
	if atomic.LoadInt64(&cuts) == 0 {
		ev.Count(HashJSON(c), false, "kind=listing-cut", "listing-not-requested")
		return nil
	}
	if rerr == nil {
		done := 0
		if m, _ := filepath.Glob(filepath.Join(dir, "dest", sub, "s1", "*.wsp")); c.Cmd == "copy" {
			done = len(m)
		}
		return []Finding{{Property: "C16", Key: "silent-success", Detail: fmt.Sprintf("%s: the command reported success although it cannot have seen %d of the names (destination files after a copy: %d)", desc, c.Names-c.Keep, done)}}
	}
	ev.Count(HashJSON(c), true, "kind=listing-cut", "cmd="+c.Cmd)
	return nil
}
