package props

// Shared driver for every property check: generate -> execute -> judge, replay files that
// bypass rapid, known-finding matching and evidence collection (DESIGN.md §2.2, §2.4, §2.7).

import (
	"crypto/sha256"
	"encoding/hex"
	"encoding/json"
	"flag"
	"fmt"
	"hash/fnv"
	"math"
	"os"
	"path/filepath"
	"runtime/debug"
	"sort"
	"strconv"
	"strings"
	"sync"
	"sync/atomic"
	"testing"
	"time"

	"pgregory.net/rapid"
)

// Finding is one disagreement between the code under test and an oracle.
type Finding struct {
	Property string `json:"property"`
	// Key classifies the finding (call site / input class); known_findings.json matches on it.
	Key    string `json:"key"`
	Detail string `json:"detail"`
}

func (f Finding) String() string { return f.Property + " [" + f.Key + "] " + f.Detail }

// F64 is a float64 that survives JSON (NaN, infinities, signed zero, every bit pattern).
type F64 float64

func (f F64) MarshalJSON() ([]byte, error) {
	v := float64(f)
	if math.IsNaN(v) || math.IsInf(v, 0) || (v == 0 && math.Signbit(v)) {
		return json.Marshal(fmt.Sprintf("bits:%016x", math.Float64bits(v)))
	}
	return json.Marshal(strconv.FormatFloat(v, 'g', -1, 64))
}

func (f *F64) UnmarshalJSON(b []byte) error {
	var s string
	if err := json.Unmarshal(b, &s); err != nil {
		var v float64
		if err2 := json.Unmarshal(b, &v); err2 != nil {
			return err
		}
		*f = F64(v)
		return nil
	}
	if strings.HasPrefix(s, "bits:") {
		u, err := strconv.ParseUint(s[5:], 16, 64)
		if err != nil {
			return err
		}
		*f = F64(math.Float64frombits(u))
		return nil
	}
	v, err := strconv.ParseFloat(s, 64)
	if err != nil {
		return err
	}
	*f = F64(v)
	return nil
}

func sameF(a, b float64) bool {
	if math.IsNaN(a) && math.IsNaN(b) {
		return true
	}
	return math.Float64bits(a) == math.Float64bits(b)
}

// ---------------------------------------------------------------------------------------------
// evidence

// Evid collects what a run covered.
type Evid struct {
	mu           sync.Mutex
	ID           string
	Rule         string
	Assumptions  []string
	evaluations  int
	invocations  int
	nontrivial   map[uint64]struct{}
	classes      map[string]int
	samples      []json.RawMessage
	excluded     int
	knownSeen    map[string]int
	discarded    int
	extra        map[string]interface{}
	exhaustive   bool
	sampleBudget int
}

func newEvid(id string) *Evid {
	return &Evid{ID: id, nontrivial: map[uint64]struct{}{}, classes: map[string]int{}, knownSeen: map[string]int{}, extra: map[string]interface{}{}, sampleBudget: 5}
}

// Hash64 hashes a canonical descriptor of a case.
func Hash64(parts ...interface{}) uint64 {
	h := fnv.New64a()
	for _, p := range parts {
		fmt.Fprintf(h, "%v|", p)
	}
	return h.Sum64()
}

// HashJSON hashes the JSON form of a case.
func HashJSON(v interface{}) uint64 {
	b, _ := json.Marshal(v)
	h := fnv.New64a()
	h.Write(b)
	return h.Sum64()
}

// Count records one evaluated case. nontrivial says whether it satisfies the property's
// stated non-triviality rule; hash identifies the case for distinct counting.
func (e *Evid) Count(hash uint64, nontrivial bool, classes ...string) {
	e.mu.Lock()
	defer e.mu.Unlock()
	e.evaluations++
	if nontrivial {
		e.nontrivial[hash] = struct{}{}
	}
	for _, c := range classes {
		if c != "" {
			e.classes[c]++
		}
	}
}

// Class bumps generator-distribution counters without counting an evaluation.
func (e *Evid) Class(classes ...string) {
	e.mu.Lock()
	defer e.mu.Unlock()
	for _, c := range classes {
		if c != "" {
			e.classes[c]++
		}
	}
}

func (e *Evid) ClassN(c string, n int) {
	e.mu.Lock()
	defer e.mu.Unlock()
	e.classes[c] += n
}

func (e *Evid) Discard(reason string) {
	e.mu.Lock()
	defer e.mu.Unlock()
	e.discarded++
	e.classes["discarded:"+reason]++
}

// Sample keeps a few actual cases (non-trivial ones preferred by the callers).
func (e *Evid) Sample(v interface{}) {
	e.mu.Lock()
	defer e.mu.Unlock()
	if len(e.samples) >= e.sampleBudget {
		return
	}
	b, err := json.Marshal(v)
	if err != nil {
		b, _ = json.Marshal(fmt.Sprintf("%+v", v))
	}
	if len(b) > 6000 {
		b, _ = json.Marshal(string(b[:6000]) + "...(truncated)")
	}
	e.samples = append(e.samples, b)
}

func (e *Evid) WantSample() bool {
	e.mu.Lock()
	defer e.mu.Unlock()
	return len(e.samples) < e.sampleBudget
}

func (e *Evid) SetExtra(k string, v interface{}) {
	e.mu.Lock()
	defer e.mu.Unlock()
	e.extra[k] = v
}

type partialEvidence struct {
	ID          string                 `json:"property_id"`
	Rule        string                 `json:"rule"`
	Assumptions []string               `json:"assumptions"`
	Evaluations int                    `json:"evaluations"`
	Requested   int                    `json:"requested"`
	Hashes      []uint64               `json:"hashes"`
	Classes     map[string]int         `json:"classes"`
	Samples     []json.RawMessage      `json:"samples"`
	Excluded    int                    `json:"excluded_known"`
	Discarded   int                    `json:"discarded"`
	KnownSeen   map[string]int         `json:"known_seen"`
	Extra       map[string]interface{} `json:"extra"`
	Exhaustive  bool                   `json:"exhaustive"`
	Violations  []violationRecord      `json:"violations"`
	Status      string                 `json:"status"`
	WallS       float64                `json:"wall_s"`
	Seed        uint64                 `json:"rapid_seed"`
}

type violationRecord struct {
	Property string   `json:"property"`
	Replay   string   `json:"replay"`
	Findings []string `json:"findings"`
}

func (e *Evid) write(status string, requested int, viol []violationRecord, wall float64) {
	out := os.Getenv("VERIF_EVID_OUT")
	if out == "" {
		return
	}
	e.mu.Lock()
	defer e.mu.Unlock()
	p := partialEvidence{ID: e.ID, Rule: e.Rule, Assumptions: e.Assumptions, Evaluations: e.evaluations, Requested: requested,
		Classes: e.classes, Samples: e.samples, Excluded: e.excluded, Discarded: e.discarded, KnownSeen: e.knownSeen, Extra: e.extra,
		Exhaustive: e.exhaustive, Violations: viol, Status: status, WallS: wall, Seed: rapidSeed()}
	for h := range e.nontrivial {
		p.Hashes = append(p.Hashes, h)
	}
	sort.Slice(p.Hashes, func(i, j int) bool { return p.Hashes[i] < p.Hashes[j] })
	b, _ := json.Marshal(p)
	tmp := out + ".tmp"
	if err := os.WriteFile(tmp, b, 0644); err == nil {
		os.Rename(tmp, out)
	}
}

// ---------------------------------------------------------------------------------------------
// known findings

type knownFinding struct {
	Property string `json:"property"`
	Key      string `json:"key"`
	Status   string `json:"status"` // "known" | "fixed"
	Commit   string `json:"commit,omitempty"`
	What     string `json:"what"`
}

var (
	knownOnce sync.Once
	knownList []knownFinding
)

func verifDir() string {
	if d := os.Getenv("VERIF_DIR"); d != "" {
		return d
	}
	return "/verif"
}

func loadKnown() []knownFinding {
	knownOnce.Do(func() {
		b, err := os.ReadFile(filepath.Join(verifDir(), "known_findings.json"))
		if err != nil {
			return
		}
		var doc struct {
			Findings []knownFinding `json:"findings"`
		}
		if json.Unmarshal(b, &doc) == nil {
			knownList = doc.Findings
		}
	})
	return knownList
}

// filterKnown splits findings into unexpected ones and ones listed as "known" (status known only;
// "fixed" entries suppress nothing).
func (e *Evid) filterKnown(fs []Finding) (unexpected []Finding, known []Finding) {
	for _, f := range fs {
		matched := false
		for _, k := range loadKnown() {
			if k.Status == "known" && k.Property == f.Property && k.Key == f.Key {
				matched = true
				e.mu.Lock()
				if e.knownSeen[k.Key] == 0 {
					fmt.Printf("KNOWN-FINDING: property=%s %s (key %s; first instance: %s)\n", k.Property, k.What, k.Key, f.Detail)
				}
				e.knownSeen[k.Key]++
				e.mu.Unlock()
				break
			}
		}
		if matched {
			known = append(known, f)
		} else {
			unexpected = append(unexpected, f)
		}
	}
	return
}

// ---------------------------------------------------------------------------------------------
// property runner

// Property describes one check. C is a plain-data, JSON-serialisable case.
type Property[C any] struct {
	ID          string
	Rule        string
	Assumptions []string
	// Gen draws a case; all randomness comes from t.
	Gen func(t *rapid.T) C
	// Run executes the real code on the case and judges it. It must not use t or randomness.
	Run func(c C, ev *Evid) []Finding
	// Fixed cases (boundary tables, saved minimal repros) that always run first.
	Fixed func() []C
	// Pre runs before the generated search (exhaustive enumerations); it returns a failing case
	// and its findings, or no findings.
	Pre func(ev *Evid) (C, []Finding)
	// NoteCases: write each case next to the evidence file before running it (for properties whose code
	// under test starts goroutines: a panic there kills the process and the driver needs the case).
	NoteCases bool
	// Trim optionally cuts a failing case down before it is saved (e.g. drop the operations after
	// the failing step); the trimmed case is saved only if it still fails.
	Trim func(c C) C
}

type replayFile[C any] struct {
	Property string   `json:"property"`
	Case     C        `json:"case"`
	Findings []string `json:"findings,omitempty"`
	Note     string   `json:"note,omitempty"`
}

func rapidSeed() uint64 {
	f := flag.Lookup("rapid.seed")
	if f == nil {
		return 0
	}
	v, _ := strconv.ParseUint(f.Value.String(), 10, 64)
	return v
}

func rapidChecks() int {
	f := flag.Lookup("rapid.checks")
	if f == nil {
		return 100
	}
	v, _ := strconv.Atoi(f.Value.String())
	return v
}

func safeRun[C any](p Property[C], c C, ev *Evid) (fs []Finding) {
	defer func() {
		if r := recover(); r != nil {
			fs = append(fs, Finding{Property: p.ID, Key: "harness-panic", Detail: fmt.Sprintf("panic outside guarded call: %v\n%s", r, debug.Stack())})
		}
	}()
	caseSaltValue, caseSaltSet = 0, false
	caseSaltFn = func() uint64 { return HashJSON(c) }
	return p.Run(c, ev)
}

// caseSalt is a number that is a pure function of the running case (computed on first use): harness-side
// variations that are not part of the case description (spelling of a base directory, ...) are chosen from
// it, so a replay makes the same choices.
var (
	caseSaltFn    func() uint64
	caseSaltValue uint64
	caseSaltSet   bool
)

func caseSalt() uint64 {
	if !caseSaltSet && caseSaltFn != nil {
		caseSaltValue, caseSaltSet = caseSaltFn(), true
	}
	return caseSaltValue
}

func saveReplay[C any](id string, c C, fs []Finding) string {
	rf := replayFile[C]{Property: id, Case: c}
	for _, f := range fs {
		rf.Findings = append(rf.Findings, f.String())
	}
	b, _ := json.MarshalIndent(rf, "", " ")
	sum := sha256.Sum256(b)
	dir := filepath.Join(verifDir(), "replays", "found")
	os.MkdirAll(dir, 0755)
	path := filepath.Join(dir, id+"-"+hex.EncodeToString(sum[:6])+".json")
	os.WriteFile(path, b, 0644)
	return path
}

// RunProperty is the body of every TestCxx.
func RunProperty[C any](t *testing.T, p Property[C]) {
	start := time.Now()
	curT = t
	ev := newEvid(p.ID)
	ev.Rule = p.Rule
	ev.Assumptions = p.Assumptions
	var viol []violationRecord
	status := "ok"
	requested := 0
	defer func() {
		if n := atomic.LoadInt64(&viaFlagsRuns); n > 0 {
			ev.SetExtra("command_executions_built_by_flag_parsing", n)
			ev.SetExtra("command_lines_refused_by_parse", atomic.LoadInt64(&viaFlagsRefused))
		}
		ev.write(status, requested, viol, time.Since(start).Seconds())
	}()

	report := func(c C, fs []Finding, path string) {
		for _, f := range fs {
			if f.Key == "harness-panic" {
				// a panic in the harness itself is a broken check, never evidence against the code under test
				status = "error"
				fmt.Printf("HARNESS-ERROR property=%s %s\n", p.ID, f.Detail)
				return
			}
		}
		if path == "" {
			if p.Trim != nil {
				tc := p.Trim(c)
				if tfs, _ := ev.filterKnown(safeRun(p, tc, newEvid(p.ID))); len(tfs) > 0 {
					c, fs = tc, tfs
				}
			}
			path = saveReplay(p.ID, c, fs)
		}
		ev.mu.Lock()
		if b, err := json.Marshal(c); err == nil && len(b) < 20000 {
			ev.samples = append([]json.RawMessage{b}, ev.samples...) // the violating case is always shown
			if len(ev.samples) > ev.sampleBudget {
				ev.samples = ev.samples[:ev.sampleBudget]
			}
		} else if len(ev.samples) == 0 {
			ev.samples = append(ev.samples, json.RawMessage(`"(violating case too large to inline; see the replay file)"`))
		}
		ev.mu.Unlock()
		rec := violationRecord{Property: p.ID, Replay: path}
		for _, f := range fs {
			rec.Findings = append(rec.Findings, f.String())
		}
		viol = append(viol, rec)
		status = "violation"
		fmt.Printf("VIOLATION property=%s replay=%s\n", p.ID, path)
		for i, f := range fs {
			if i >= 5 {
				fmt.Printf("  ... %d more findings\n", len(fs)-i)
				break
			}
			fmt.Printf("  finding: %s\n", f)
		}
	}

	// 1. explicit replay: ./check <ID> --replay <file>
	if rp := os.Getenv("VERIF_REPLAY"); rp != "" {
		b, err := os.ReadFile(rp)
		if err != nil {
			status = "error"
			t.Fatalf("cannot read replay %s: %v", rp, err)
		}
		var rf replayFile[C]
		if err := json.Unmarshal(b, &rf); err != nil {
			status = "error"
			t.Fatalf("cannot decode replay %s: %v", rp, err)
		}
		requested = 1
		fs, _ := ev.filterKnown(safeRun(p, rf.Case, ev))
		if len(fs) > 0 {
			report(rf.Case, fs, rp)
			t.Fail()
		}
		ev.Sample(rf.Case)
		return
	}

	// 2. regression tier: committed minimal repros and fixed boundary cases (no rapid involved)
	regDir := filepath.Join(verifDir(), "replays", "regress", p.ID)
	if ents, err := os.ReadDir(regDir); err == nil {
		for _, ent := range ents {
			if !strings.HasSuffix(ent.Name(), ".json") {
				continue
			}
			path := filepath.Join(regDir, ent.Name())
			b, err := os.ReadFile(path)
			if err != nil {
				continue
			}
			var rf replayFile[C]
			if err := json.Unmarshal(b, &rf); err != nil {
				status = "error"
				t.Fatalf("cannot decode regression replay %s: %v", path, err)
			}
			ev.Class("regression-replay")
			fs, _ := ev.filterKnown(safeRun(p, rf.Case, ev))
			if len(fs) > 0 {
				report(rf.Case, fs, path)
				t.Fail()
				return
			}
		}
	}
	if p.Fixed != nil {
		for _, c := range p.Fixed() {
			ev.Class("fixed-case")
			fs, _ := ev.filterKnown(safeRun(p, c, ev))
			if len(fs) > 0 {
				report(c, fs, "")
				t.Fail()
				return
			}
		}
	}
	if p.Pre != nil {
		if c, fs := p.Pre(ev); len(fs) > 0 {
			if fs, _ = ev.filterKnown(fs); len(fs) > 0 {
				report(c, fs, "")
				t.Fail()
				return
			}
		}
	}
	if p.Gen == nil {
		return
	}

	// 3. generated search
	requested = rapidChecks()
	before := ev.invocations
	var lastFail struct {
		set bool
		c   C
		fs  []Finding
	}
	ok := t.Run("rapid", func(t *testing.T) {
		curT = t
		rapid.Check(t, func(rt *rapid.T) {
			c := p.Gen(rt)
			if p.NoteCases {
				noteCaseInFlight(c)
			}
			t0 := time.Now()
			fs, _ := ev.filterKnown(safeRun(p, c, ev))
			if d := time.Since(t0); d > 3*time.Second && os.Getenv("VERIF_SLOW") != "" {
				b, _ := json.Marshal(c)
				os.WriteFile(fmt.Sprintf("/tmp/slow-%s-%d.json", p.ID, ev.invocations), b, 0644)
				fmt.Printf("SLOW-CASE %s #%d took %v (%d bytes of case)\n", p.ID, ev.invocations, d, len(b))
			}
			ev.invocations++
			if len(ev.samples) == 0 && ev.invocations == 50 {
				ev.Sample(c) // make sure the evidence shows at least one actual case
			}
			if len(fs) > 0 {
				lastFail.set, lastFail.c, lastFail.fs = true, c, fs
				rt.Fatalf("%d finding(s); first: %s", len(fs), fs[0])
			}
		})
	})
	curT = t
	if !ok {
		if lastFail.set {
			report(lastFail.c, lastFail.fs, "")
		} else {
			status = "error"
		}
		t.Fail()
		return
	}
	if got := ev.invocations - before; got < requested {
		// rapid stops at the test deadline and still prints OK; fewer cases than requested is inconclusive
		status = "short"
		fmt.Printf("VERIF-SHORT property=%s evaluated=%d requested=%d\n", p.ID, got, requested)
	}
}

// noteCaseInFlight records the case about to run next to the evidence file: if a goroutine started by
// the code under test panics, the whole test process dies and the driver builds the replay from it.
func noteCaseInFlight(c interface{}) {
	if out := os.Getenv("VERIF_EVID_OUT"); out != "" {
		if b, err := json.Marshal(c); err == nil {
			os.WriteFile(out+".lastcase", b, 0644)
		}
	}
}

// guard runs f and converts a panic into a description (a panic escaping the code under test is
// an observation, not a harness crash).
func guard(f func()) (panicMsg string) {
	defer func() {
		if r := recover(); r != nil {
			st := string(debug.Stack())
			if len(st) > 1800 {
				st = st[:1800]
			}
			panicMsg = fmt.Sprintf("%v\n%s", r, st)
		}
	}()
	f()
	return ""
}

// scratchDir returns a fresh directory outside /repo and /verif; callers remove it.
func scratchDir() string {
	base := os.Getenv("VERIF_SCRATCH")
	if base == "" {
		if st, err := os.Stat("/dev/shm"); err == nil && st.IsDir() {
			base = "/dev/shm"
		} else {
			base = os.TempDir()
		}
	}
	d, err := os.MkdirTemp(base, "verif-case-")
	if err != nil {
		panic(err)
	}
	return d
}

func tier() string {
	if v := os.Getenv("VERIF_TIER"); v != "" {
		return v
	}
	return "quick"
}
