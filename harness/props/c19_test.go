package props

import (
	"encoding/hex"
	"flag"
	"fmt"
	"io"
	"math"
	"math/big"
	"os"
	"strconv"
	"strings"
	"sync"
	"testing"
	"time"

	wt "github.com/hnakamur/whispertool"
	"github.com/hnakamur/whispertool/cmd"
	"pgregory.net/rapid"
)

// C19 - text syntax round trips.

type C19Case struct {
	Kind string  `json:"kind"` // duration | timestamp | layout | method | durstr | tsstr | liststr
	Dur  int32   `json:"dur,omitempty"`
	TS   uint32  `json:"ts,omitempty"`
	L    *Layout `json:"layout,omitempty"`
	M    int     `json:"method,omitempty"`
	S    string  `json:"s,omitempty"`
	// Hex, when set, is the string under test in hexadecimal (strings that are not valid UTF-8 do not survive JSON)
	Hex string `json:"hex,omitempty"`
}

var unitSeconds = map[byte]int64{'s': 1, 'm': 60, 'h': 3600, 'd': 86400, 'w': 7 * 86400, 'y': 365 * 86400}

// durMeaning evaluates a duration string independently: (meaning, wellFormed, canonicalNumeral).
// wellFormed = digits followed by exactly one unit letter.
func durMeaning(s string) (v *big.Int, wellFormed bool, canonical bool) {
	if len(s) < 2 {
		return nil, false, false
	}
	u, ok := unitSeconds[s[len(s)-1]]
	if !ok {
		return nil, false, false
	}
	digits := s[:len(s)-1]
	for i := 0; i < len(digits); i++ {
		if digits[i] < '0' || digits[i] > '9' {
			return nil, false, false
		}
	}
	n, _ := new(big.Int).SetString(digits, 10)
	canonical = digits == "0" || digits[0] != '0'
	return n.Mul(n, big.NewInt(u)), true, canonical
}

var maxInt32Big = big.NewInt(math.MaxInt32)

func judgeDurString(s string) (fs []Finding) {
	var d wt.Duration
	var err error
	if pm := guard(func() { d, err = wt.ParseDuration(s) }); pm != "" {
		return []Finding{{Property: "C19", Key: "parse-panic", Detail: fmt.Sprintf("ParseDuration(%q) panicked: %s", s, pm)}}
	}
	v, wf, canon := durMeaning(s)
	if err == nil {
		if !wf {
			return []Finding{{Property: "C19", Key: "dur-accepts-malformed", Detail: fmt.Sprintf("ParseDuration(%q) = %d accepted; the string is not <number><unit> (empty / missing, unknown or doubled unit / sign)", s, d)}}
		}
		if v.Cmp(maxInt32Big) > 0 {
			return []Finding{{Property: "C19", Key: "dur-accepts-overflow", Detail: fmt.Sprintf("ParseDuration(%q) = %d accepted; exact meaning %s exceeds 31 bits", s, d, v)}}
		}
		if v.Int64() != int64(d) {
			return []Finding{{Property: "C19", Key: "dur-wrong-value", Detail: fmt.Sprintf("ParseDuration(%q) = %d; exact meaning is %s", s, d, v)}}
		}
		return nil
	}
	if wf && canon && v.Cmp(maxInt32Big) <= 0 {
		return []Finding{{Property: "C19", Key: "dur-rejects-valid", Detail: fmt.Sprintf("ParseDuration(%q) rejected (%v); it means %s seconds", s, err, v)}}
	}
	return nil
}

// daysFromCivil: proleptic Gregorian days since 1970-01-01 (independent of package time).
func daysFromCivil(y, m, d int64) int64 {
	if m <= 2 {
		y--
	}
	era := floorDiv(y, 400)
	yoe := y - era*400
	mp := (m + 9) % 12
	doy := (153*mp+2)/5 + d - 1
	doe := yoe*365 + yoe/4 - yoe/100 + doy
	return era*146097 + doe - 719468
}

func daysInMonth(y, m int64) int64 {
	switch m {
	case 4, 6, 9, 11:
		return 30
	case 2:
		if (y%4 == 0 && y%100 != 0) || y%400 == 0 {
			return 29
		}
		return 28
	}
	return 31
}

// tsMeaning evaluates "YYYY-MM-DDTHH:MM:SSZ" independently.
func tsMeaning(s string) (int64, bool) {
	if len(s) != 20 || s[4] != '-' || s[7] != '-' || s[10] != 'T' || s[13] != ':' || s[16] != ':' || s[19] != 'Z' {
		return 0, false
	}
	num := func(a, b int) (int64, bool) {
		v := int64(0)
		for i := a; i < b; i++ {
			if s[i] < '0' || s[i] > '9' {
				return 0, false
			}
			v = v*10 + int64(s[i]-'0')
		}
		return v, true
	}
	y, ok1 := num(0, 4)
	mo, ok2 := num(5, 7)
	d, ok3 := num(8, 10)
	h, ok4 := num(11, 13)
	mi, ok5 := num(14, 16)
	se, ok6 := num(17, 19)
	if !(ok1 && ok2 && ok3 && ok4 && ok5 && ok6) {
		return 0, false
	}
	if mo < 1 || mo > 12 || d < 1 || d > daysInMonth(y, mo) || h > 23 || mi > 59 || se > 59 {
		return 0, false
	}
	return daysFromCivil(y, mo, d)*86400 + h*3600 + mi*60 + se, true
}

func civilString(ts int64) string {
	// independent formatter (inverse of daysFromCivil)
	days := floorDiv(ts, 86400)
	rem := ts - days*86400
	z := days + 719468
	era := floorDiv(z, 146097)
	doe := z - era*146097
	yoe := (doe - doe/1460 + doe/36524 - doe/146096) / 365
	y := yoe + era*400
	doy := doe - (365*yoe + yoe/4 - yoe/100)
	mp := (5*doy + 2) / 153
	d := doy - (153*mp+2)/5 + 1
	m := mp + 3
	if m > 12 {
		m -= 12
	}
	if m <= 2 {
		y++
	}
	return fmt.Sprintf("%04d-%02d-%02dT%02d:%02d:%02dZ", y, m, d, rem/3600, rem%3600/60, rem%60)
}

func judgeTSString(s string) []Finding {
	var got wt.Timestamp
	var err error
	if pm := guard(func() { got, err = wt.ParseTimestamp(s) }); pm != "" {
		return []Finding{{Property: "C19", Key: "parse-panic", Detail: fmt.Sprintf("ParseTimestamp(%q) panicked: %s", s, pm)}}
	}
	want, ok := tsMeaning(s)
	inRange := ok && want >= 0 && want <= math.MaxUint32
	if err == nil {
		if !ok {
			return []Finding{{Property: "C19", Key: "ts-accepts-malformed", Detail: fmt.Sprintf("ParseTimestamp(%q) = %d accepted; not a valid 2006-01-02T15:04:05Z instant", s, got)}}
		}
		if inRange && int64(got) != want {
			return []Finding{{Property: "C19", Key: "ts-wrong-value", Detail: fmt.Sprintf("ParseTimestamp(%q) = %d; exact meaning %d", s, got, want)}}
		}
		return nil
	}
	if inRange {
		return []Finding{{Property: "C19", Key: "ts-rejects-valid", Detail: fmt.Sprintf("ParseTimestamp(%q) rejected: %v", s, err)}}
	}
	return nil
}

// listMeaning evaluates a retention-list string independently. verdict: +1 must accept,
// -1 must reject, 0 no assertion (non-canonical numerals / grey zone).
func listMeaning(s string) (verdict int, list []RawArch, why string) {
	if s == "" {
		return -1, nil, "empty"
	}
	canonAll := true
	for _, part := range strings.Split(s, ",") {
		i := strings.IndexByte(part, ':')
		if i < 0 {
			return -1, nil, "no colon"
		}
		sv, wf1, c1 := durMeaning(part[:i])
		rv, wf2, c2 := durMeaning(part[i+1:])
		if !wf1 || !wf2 {
			return -1, nil, "malformed duration"
		}
		if sv.Cmp(maxInt32Big) > 0 || rv.Cmp(maxInt32Big) > 0 {
			return -1, nil, "duration exceeds 31 bits"
		}
		canonAll = canonAll && c1 && c2
		st, rt := sv.Int64(), rv.Int64()
		if st <= 0 || rt <= 0 || rt%st != 0 {
			return -1, nil, "retention not a positive multiple of step"
		}
		list = append(list, RawArch{Step: st, Points: rt / st})
	}
	// the pairwise layout rules and 32-bit file offsets are C07's business: no C19 verdict
	if v, reason := ValidLayout(list); v != Valid {
		return 0, list, reason
	}
	if !canonAll {
		return 0, list, "non-canonical numeral"
	}
	return 1, list, ""
}

func judgeListString(s string) []Finding {
	var got wt.ArchiveInfoList
	var err error
	if pm := guard(func() { got, err = wt.ParseArchiveInfoList(s) }); pm != "" {
		return []Finding{{Property: "C19", Key: "parse-panic", Detail: fmt.Sprintf("ParseArchiveInfoList(%q) panicked: %s", s, pm)}}
	}
	verdict, list, why := listMeaning(s)
	if err == nil {
		if verdict < 0 {
			return []Finding{{Property: "C19", Key: "list-accepts-invalid", Detail: fmt.Sprintf("ParseArchiveInfoList(%q) accepted; must be rejected (%s)", s, why)}}
		}
		if len(got) != len(list) {
			return []Finding{{Property: "C19", Key: "list-wrong-value", Detail: fmt.Sprintf("ParseArchiveInfoList(%q): %d archives, meaning has %d", s, len(got), len(list))}}
		}
		for i := range got {
			if int64(got[i].SecondsPerPoint()) != list[i].Step || int64(got[i].NumberOfPoints()) != list[i].Points {
				return []Finding{{Property: "C19", Key: "list-wrong-value", Detail: fmt.Sprintf("ParseArchiveInfoList(%q) archive %d = %d s x %d, meaning %d s x %d", s, i, got[i].SecondsPerPoint(), got[i].NumberOfPoints(), list[i].Step, list[i].Points)}}
			}
		}
		return nil
	}
	if verdict > 0 {
		return []Finding{{Property: "C19", Key: "list-rejects-valid", Detail: fmt.Sprintf("ParseArchiveInfoList(%q) rejected: %v", s, err)}}
	}
	return nil
}

func newGenerateFlags() (*flag.FlagSet, *cmd.GenerateCommand) {
	fs := flag.NewFlagSet("generate", flag.ContinueOnError)
	fs.SetOutput(io.Discard)
	c := &cmd.GenerateCommand{}
	c.Parse(fs, nil)
	return fs, c
}

func judgeDur(d int32) []Finding {
	s := wt.Duration(d).String()
	got, err := wt.ParseDuration(s)
	if err != nil || int32(got) != d {
		return []Finding{{Property: "C19", Key: "dur-roundtrip", Detail: fmt.Sprintf("Duration(%d).String() = %q parses to (%d, %v)", d, s, got, err)}}
	}
	if v, wf, _ := durMeaning(s); !wf || v.Int64() != int64(d) {
		return []Finding{{Property: "C19", Key: "dur-print-meaning", Detail: fmt.Sprintf("Duration(%d).String() = %q does not mean %d", d, s, d)}}
	}
	return nil
}

func judgeTS(ts uint32) []Finding {
	s := wt.Timestamp(ts).String()
	got, err := wt.ParseTimestamp(s)
	if err != nil || uint32(got) != ts {
		return []Finding{{Property: "C19", Key: "ts-roundtrip", Detail: fmt.Sprintf("Timestamp(%d).String() = %q parses to (%d, %v)", ts, s, got, err)}}
	}
	if want := civilString(int64(ts)); s != want {
		return []Finding{{Property: "C19", Key: "ts-print-meaning", Detail: fmt.Sprintf("Timestamp(%d).String() = %q, the UTC instant is %s", ts, s, want)}}
	}
	return nil
}

func runC19(c C19Case, ev *Evid) (fs []Finding) {
	if c.Hex != "" {
		b, err := hex.DecodeString(c.Hex)
		if err != nil {
			panic("bad hex in C19 case")
		}
		c.S = string(b)
	}
	nontrivial := true
	cls := []string{"kind=" + c.Kind}
	switch c.Kind {
	case "duration":
		fs = judgeDur(c.Dur)
		near := false
		for _, u := range unitSeconds {
			r := int64(c.Dur) % u
			if u > 1 && (r <= 1 || r == u-1) {
				near = true
			}
		}
		nontrivial = near || c.Dur%60 != 0 || c.Dur > math.MaxInt32-400*86400
	case "timestamp":
		fs = judgeTS(c.TS)
		if len(fs) == 0 {
			// flag value round trip (CLI forwards its arguments to a server as text)
			fset, _ := newGenerateFlags()
			_ = fset
			vc := &cmd.ViewCommand{}
			vfs := flag.NewFlagSet("view", flag.ContinueOnError)
			vfs.SetOutput(io.Discard)
			vc.Parse(vfs, nil)
			s := wt.Timestamp(c.TS).String()
			if err := vfs.Set("from", s); err != nil || uint32(vc.From) != c.TS {
				fs = append(fs, Finding{Property: "C19", Key: "flag-ts-roundtrip", Detail: fmt.Sprintf("-from %s: err=%v value=%d want %d", s, err, vc.From, c.TS)})
			} else if p := vfs.Lookup("from").Value.String(); p != s {
				fs = append(fs, Finding{Property: "C19", Key: "flag-ts-roundtrip", Detail: fmt.Sprintf("-from printed %q after setting %q", p, s)})
			}
		}
	case "layout":
		al := wtArchives(*c.L)
		s := al.String()
		got, err := wt.ParseArchiveInfoList(s)
		if err != nil || !got.Equal(al) || len(got) != len(al) {
			fs = append(fs, Finding{Property: "C19", Key: "list-roundtrip", Detail: fmt.Sprintf("layout %v prints as %q which parses to (%v, %v)", *c.L, s, got, err)})
			break
		}
		if v, list, _ := listMeaning(s); v < 0 || len(list) != len(c.L.Archives) {
			fs = append(fs, Finding{Property: "C19", Key: "list-print-meaning", Detail: fmt.Sprintf("layout %v prints as %q which does not mean that layout", *c.L, s)})
			break
		} else {
			for i, a := range c.L.Archives {
				if list[i].Step != a.Step || list[i].Points != a.Points {
					fs = append(fs, Finding{Property: "C19", Key: "list-print-meaning", Detail: fmt.Sprintf("layout %v prints as %q: archive %d means %d s x %d", *c.L, s, i, list[i].Step, list[i].Points)})
				}
			}
		}
		fset, gc := newGenerateFlags()
		if err := fset.Set("retentions", s); err != nil || !gc.ArchiveInfoList.Equal(al) {
			fs = append(fs, Finding{Property: "C19", Key: "flag-list-roundtrip", Detail: fmt.Sprintf("-retentions %s: err=%v value=%v", s, err, gc.ArchiveInfoList)})
		} else if p := fset.Lookup("retentions").Value.String(); p != s {
			fs = append(fs, Finding{Property: "C19", Key: "flag-list-roundtrip", Detail: fmt.Sprintf("-retentions printed %q after setting %q", p, s)})
		}
		// xFilesFactor flag round trip for the layout's xff
		xs := strconv.FormatFloat(float64(c.L.XFF), 'f', -1, 32)
		if err := fset.Set("x-files-factor", xs); err != nil || gc.XFilesFactor != c.L.XFF {
			fs = append(fs, Finding{Property: "C19", Key: "flag-xff-roundtrip", Detail: fmt.Sprintf("-x-files-factor %s: err=%v value=%v want %v", xs, err, gc.XFilesFactor, c.L.XFF)})
		} else if p := fset.Lookup("x-files-factor").Value.String(); p != xs {
			fs = append(fs, Finding{Property: "C19", Key: "flag-xff-roundtrip", Detail: fmt.Sprintf("-x-files-factor printed %q after setting %q", p, xs)})
		}
		nontrivial = len(c.L.Archives) > 1
	case "method":
		m := wt.AggregationMethod(c.M)
		s := m.String()
		got, err := wt.AggregationMethodString(s)
		if c.M >= 1 && c.M <= 8 {
			if err != nil || got != m {
				fs = append(fs, Finding{Property: "C19", Key: "method-roundtrip", Detail: fmt.Sprintf("method %d prints %q parses to (%v, %v)", c.M, s, got, err)})
			}
			names := []string{"", "average", "sum", "last", "max", "min", "first", "mix", "percentile"}
			if s != names[c.M] {
				fs = append(fs, Finding{Property: "C19", Key: "method-name", Detail: fmt.Sprintf("method %d prints %q, its name is %q", c.M, s, names[c.M])})
			}
			fset, gc := newGenerateFlags()
			err := fset.Set("agg-method", s)
			if c.M <= 6 {
				if err != nil || gc.AggregationMethod != m {
					fs = append(fs, Finding{Property: "C19", Key: "flag-method-roundtrip", Detail: fmt.Sprintf("-agg-method %s: err=%v value=%v", s, err, gc.AggregationMethod)})
				} else if p := fset.Lookup("agg-method").Value.String(); p != s {
					fs = append(fs, Finding{Property: "C19", Key: "flag-method-roundtrip", Detail: fmt.Sprintf("-agg-method printed %q after setting %q", p, s)})
				}
			}
		} else if err == nil {
			fs = append(fs, Finding{Property: "C19", Key: "method-accepts-unknown", Detail: fmt.Sprintf("method value %d prints %q which parses as %v", c.M, s, got)})
		}
	case "methodstr":
		got, err := wt.AggregationMethodString(c.S)
		names := map[string]int{"average": 1, "sum": 2, "last": 3, "max": 4, "min": 5, "first": 6, "mix": 7, "percentile": 8}
		if want, ok := names[c.S]; ok {
			if err != nil || int(got) != want {
				fs = append(fs, Finding{Property: "C19", Key: "method-parse", Detail: fmt.Sprintf("AggregationMethodString(%q) = (%v, %v), want %d", c.S, got, err, want)})
			}
		} else if err == nil {
			fs = append(fs, Finding{Property: "C19", Key: "method-accepts-unknown", Detail: fmt.Sprintf("AggregationMethodString(%q) accepted as %v", c.S, got)})
		}
	case "concurrent":
		// the printers and parsers are pure functions: the round trips hold just the same when several goroutines
		// print and parse DIFFERENT values at the same time (as diff / copy do when both sides are remote)
		var mu sync.Mutex
		var wg sync.WaitGroup
		for g := 0; g < 8; g++ {
			wg.Add(1)
			go func(g int) {
				defer wg.Done()
				for i := 0; i < 4000; i++ {
					ts := wt.Timestamp(c.TS + uint32(g)*100003 + uint32(i)*7919)
					str := ts.String()
					back, err := wt.ParseTimestamp(str)
					d := wt.Duration((int64(c.Dur)/2 + int64(g)*15485863 + int64(i)*104729) % math.MaxInt32)
					ds := d.String()
					db, derr := wt.ParseDuration(ds)
					if err != nil || back != ts || derr != nil || db != d {
						mu.Lock()
						if len(fs) == 0 {
							fs = append(fs, Finding{Property: "C19", Key: "concurrent-roundtrip", Detail: fmt.Sprintf("with 8 goroutines printing different values at once: Timestamp(%d).String() = %q parses to (%d, %v); Duration(%d).String() = %q parses to (%d, %v)", ts, str, back, err, d, ds, db, derr)})
						}
						mu.Unlock()
						return
					}
				}
			}(g)
		}
		wg.Wait()
		cls = append(cls, "concurrent-printers")
	case "durstr":
		fs = judgeDurString(c.S)
	case "tsstr":
		fs = judgeTSString(c.S)
	case "liststr":
		fs = judgeListString(c.S)
		if len(fs) == 0 && strings.IndexByte(c.S, ',') < 0 {
			// a single definition goes through ParseArchiveInfo too
			var a wt.ArchiveInfo
			var err error
			if pm := guard(func() { a, err = wt.ParseArchiveInfo(c.S) }); pm != "" {
				fs = append(fs, Finding{Property: "C19", Key: "parse-panic", Detail: fmt.Sprintf("ParseArchiveInfo(%q) panicked: %s", c.S, pm)})
			}
			v, list, why := listMeaning(c.S)
			if err == nil && (list == nil || len(list) != 1) {
				fs = append(fs, Finding{Property: "C19", Key: "list-accepts-invalid", Detail: fmt.Sprintf("ParseArchiveInfo(%q) accepted; must be rejected (%s)", c.S, why)})
			} else if err == nil && (int64(a.SecondsPerPoint()) != list[0].Step || int64(a.NumberOfPoints()) != list[0].Points) {
				fs = append(fs, Finding{Property: "C19", Key: "list-wrong-value", Detail: fmt.Sprintf("ParseArchiveInfo(%q) = %d x %d, meaning %d x %d", c.S, a.SecondsPerPoint(), a.NumberOfPoints(), list[0].Step, list[0].Points)})
			} else if err != nil && v > 0 {
				fs = append(fs, Finding{Property: "C19", Key: "list-rejects-valid", Detail: fmt.Sprintf("ParseArchiveInfo(%q) rejected: %v", c.S, err)})
			}
		}
	}
	if len(fs) > 0 {
		return fs
	}
	ev.Count(HashJSON(c), nontrivial, cls...)
	if nontrivial && ev.WantSample() && rapidSeed()%3 == 0 || (ev.WantSample() && c.Kind != "duration" && c.Kind != "timestamp") {
		ev.Sample(c)
	}
	return nil
}

var durBoundaryNumerals = []string{"0", "1", "2", "59", "60", "61", "2147483647", "2147483648", "4294967296", "4294967295", "35791394", "35791395", "596523", "596524", "24855", "24856", "3550", "3551", "68", "69", "00", "01", "007", "99999999999999999999", "18446744073709551616", "9223372036854775808", "214748364", "214748365", "21474836470", "18446744073709551617", "18446744073709551676", "36893488147419103237", "55340232221128654855", "18446744073709555216", "340282366920938463463374607431768211457"}

func genDurString(t *rapid.T) string {
	switch rapid.IntRange(0, 5).Draw(t, "durStrKind") {
	case 0:
		if rapid.IntRange(0, 3).Draw(t, "anyUnitByte") == 0 {
			return rapid.SampledFrom(durBoundaryNumerals).Draw(t, "num") + string([]byte{byte(rapid.IntRange(33, 126).Draw(t, "unitByte"))})
		}
		return rapid.SampledFrom(durBoundaryNumerals).Draw(t, "num") + rapid.SampledFrom([]string{"s", "m", "h", "d", "w", "y", "", "x", "S", "ss", "sm", "ms", " s", "s "}).Draw(t, "unit")
	case 1:
		return rapid.StringMatching(`[0-9smhdwy:,+\-]{0,7}`).Draw(t, "alpha")
	case 2:
		return rapid.SampledFrom([]string{"+", "-", " ", ""}).Draw(t, "sign") + strconv.Itoa(rapid.IntRange(0, 1<<31-1).Draw(t, "n")) + rapid.SampledFrom([]string{"s", "m", "h", "d", "w", "y"}).Draw(t, "unit")
	case 3:
		// around the overflow boundary of each unit
		u := rapid.SampledFrom([]string{"s", "m", "h", "d", "w", "y"}).Draw(t, "unit")
		lim := int64(math.MaxInt32) / unitSeconds[u[0]]
		return strconv.FormatInt(lim+rapid.Int64Range(-2, 2).Draw(t, "d"), 10) + u
	default:
		return strconv.FormatInt(rapid.Int64Range(0, 1<<33).Draw(t, "n"), 10) + rapid.SampledFrom([]string{"s", "m", "h", "d", "w", "y"}).Draw(t, "unit")
	}
}

func genTSString(t *rapid.T) string {
	y := rapid.Int64Range(1970, 2106).Draw(t, "y")
	mo := rapid.Int64Range(1, 12).Draw(t, "mo")
	d := rapid.Int64Range(1, 31).Draw(t, "d")
	h := rapid.Int64Range(0, 23).Draw(t, "h")
	mi := rapid.Int64Range(0, 59).Draw(t, "mi")
	se := rapid.Int64Range(0, 59).Draw(t, "se")
	base := fmt.Sprintf("%04d-%02d-%02dT%02d:%02d:%02dZ", y, mo, d, h, mi, se)
	switch rapid.IntRange(0, 11).Draw(t, "tsKind") {
	case 0:
		return base[:19] // missing Z
	case 1:
		return base[:19] + rapid.SampledFrom([]string{"+09:00", "+00:00", "z", " Z", "UTC", "-07:00"}).Draw(t, "zone")
	case 2:
		return strings.Replace(base, "T", rapid.SampledFrom([]string{" ", "t", "", "_"}).Draw(t, "sep"), 1)
	case 3:
		return fmt.Sprintf("%04d-%02d-%02dT%02d:%02d:%02dZ", y, rapid.SampledFrom([]int64{0, 13, 99}).Draw(t, "badMo"), d, h, mi, se)
	case 4:
		return fmt.Sprintf("%04d-%02d-%02dT%02d:%02d:%02dZ", y, mo, rapid.SampledFrom([]int64{0, 32, 99}).Draw(t, "badD"), h, mi, se)
	case 5:
		return fmt.Sprintf("%04d-%02d-%02dT%02d:%02d:%02dZ", y, mo, d, rapid.SampledFrom([]int64{24, 25, 99}).Draw(t, "badH"), mi, se)
	case 6:
		return fmt.Sprintf("%04d-%02d-%02dT%02d:%02d:%02dZ", y, mo, d, h, rapid.SampledFrom([]int64{60, 61, 99}).Draw(t, "badMi"), se)
	case 7:
		return fmt.Sprintf("%04d-%02d-%02dT%02d:%02d:%02dZ", y, mo, d, h, mi, rapid.SampledFrom([]int64{60, 61, 99}).Draw(t, "badS"))
	case 8:
		return rapid.SampledFrom([]string{"", " ", base + " ", " " + base, base + "Z", base[2:], "1500000000", strings.ReplaceAll(base, "-", "/"), strings.ReplaceAll(base, ":", "."), base[:10], base[:16] + "Z"}).Draw(t, "garbage")
	default:
		return base // mostly valid; day may exceed the month's length (e.g. Feb 30)
	}
}

func genListString(t *rapid.T) string {
	switch rapid.IntRange(0, 7).Draw(t, "listKind") {
	case 6:
		// a single archive whose retention sits at the 31-bit boundary: p points of floor((2^31-1)/p)+{-1,0,1} seconds
		pts := rapid.Int64Range(1, 8).Draw(t, "points")
		st := (1<<31-1)/pts + rapid.Int64Range(-1, 1).Draw(t, "delta")
		return fmt.Sprintf("%ds:%ds", st, st*pts)
	case 7:
		// a valid layout with its archives written in another order (a list is a sequence: archive ids index it
		// as written, so a parser may reject such a string but may not reorder it)
		l := genLayout(t, defaultLayoutOpts())
		parts := strings.Split(harnessPrintLayout(t, l), ",")
		if len(parts) > 1 {
			i := rapid.IntRange(0, len(parts)-2).Draw(t, "swapAt")
			j := rapid.IntRange(i+1, len(parts)-1).Draw(t, "swapWith")
			parts[i], parts[j] = parts[j], parts[i]
		}
		return strings.Join(parts, ",")
	case 0:
		return rapid.StringMatching(`[0-9smhdwy:,+\-]{0,7}`).Draw(t, "alpha")
	case 1:
		// a valid layout printed by the harness with arbitrary (non-canonical) unit choices, then mutated
		l := genLayout(t, defaultLayoutOpts())
		s := harnessPrintLayout(t, l)
		switch rapid.IntRange(0, 6).Draw(t, "mut") {
		case 0:
			return s + ","
		case 1:
			return "," + s
		case 2:
			return strings.Replace(s, ":", "", 1)
		case 3:
			return strings.Replace(s, ":", "::", 1)
		case 4:
			return s + "," + s
		case 5:
			return strings.Replace(s, ",", ",,", 1)
		}
		return s
	case 2:
		// retention not a multiple of the step
		st := rapid.Int64Range(2, 100).Draw(t, "step")
		r := st*rapid.Int64Range(1, 50).Draw(t, "n") + rapid.Int64Range(1, st-1).Draw(t, "rem")
		return fmt.Sprintf("%ds:%ds", st, r)
	case 3:
		return genDurString(t) + ":" + genDurString(t)
	default:
		l := genLayout(t, defaultLayoutOpts())
		return harnessPrintLayout(t, l)
	}
}

// harnessPrintLayout prints a layout without using the repo's String(): each duration is
// written with a unit that divides it, chosen by the generator.
func harnessPrintLayout(t *rapid.T, l Layout) string {
	pd := func(v int64) string {
		var opts []string
		for _, u := range []byte{'s', 'm', 'h', 'd', 'w', 'y'} {
			if v%unitSeconds[u] == 0 {
				opts = append(opts, strconv.FormatInt(v/unitSeconds[u], 10)+string(u))
			}
		}
		return rapid.SampledFrom(opts).Draw(t, "unitChoice")
	}
	var parts []string
	for _, a := range l.Archives {
		parts = append(parts, pd(a.Step)+":"+pd(a.Ret()))
	}
	return strings.Join(parts, ",")
}

func genC19(t *rapid.T) C19Case {
	switch rapid.IntRange(0, 11).Draw(t, "kind") {
	case 0, 1:
		var d int32
		switch rapid.IntRange(0, 3).Draw(t, "durKind") {
		case 0:
			u := rapid.SampledFrom([]int64{1, 60, 3600, 86400, 7 * 86400, 365 * 86400, 7 * 365 * 86400}).Draw(t, "unit")
			k := rapid.Int64Range(0, math.MaxInt32/u).Draw(t, "k")
			v := k*u + rapid.Int64Range(-1, 1).Draw(t, "d")
			if v < 0 {
				v = 0
			}
			if v > math.MaxInt32 {
				v = math.MaxInt32
			}
			d = int32(v)
		case 1:
			d = math.MaxInt32 - rapid.Int32Range(0, 1000).Draw(t, "fromMax")
		default:
			d = rapid.Int32Range(0, math.MaxInt32).Draw(t, "dur")
		}
		return C19Case{Kind: "duration", Dur: d}
	case 2, 3:
		ts := rapid.Uint32().Draw(t, "ts")
		if rapid.IntRange(0, 3).Draw(t, "tsEdge") == 0 {
			ts = rapid.SampledFrom([]uint32{0, 1, 59, 60, 86399, 86400, 951782400, 951868800, 1<<31 - 1, 1 << 31, 1<<32 - 1, 4107542400, 4102444800}).Draw(t, "tsSpecial")
		}
		return C19Case{Kind: "timestamp", TS: ts}
	case 4:
		o := defaultLayoutOpts()
		l := genLayout(t, o)
		if rapid.Bool().Draw(t, "bigSteps") {
			// large steps / retentions (hours .. years)
			l = Layout{Method: l.Method, XFF: l.XFF}
			st := rapid.SampledFrom([]int64{60, 300, 3600, 86400, 7 * 86400}).Draw(t, "bigStep")
			ret := int64(0)
			k := rapid.IntRange(1, 3).Draw(t, "bigK")
			for i := 0; i < k; i++ {
				minPts := ret/st + 1
				if minPts < 60 {
					minPts = 60
				}
				pts := minPts + rapid.Int64Range(0, 400).Draw(t, "bigPts")
				if st*pts > 1<<30 {
					break
				}
				l.Archives = append(l.Archives, Arch{Step: st, Points: pts})
				ret = st * pts
				st *= rapid.SampledFrom([]int64{2, 5, 12, 24, 60}).Draw(t, "bigRatio")
			}
			if len(l.Archives) == 0 {
				l.Archives = []Arch{{Step: 60, Points: 60}}
			}
		}
		return C19Case{Kind: "layout", L: &l}
	case 5:
		if rapid.Bool().Draw(t, "byName") {
			return C19Case{Kind: "methodstr", S: rapid.SampledFrom([]string{"average", "sum", "last", "max", "min", "first", "mix", "percentile", "", "avg", "Sum", "SUM", "sum ", "median", "AggregationMethod(1)", "AggregationMethod(0)", "1", "0"}).Draw(t, "name")}
		}
		return C19Case{Kind: "method", M: rapid.IntRange(-1, 10).Draw(t, "m")}
	case 6, 7, 8:
		return C19Case{Kind: "durstr", S: genDurString(t)}
	case 9:
		return C19Case{Kind: "tsstr", S: genTSString(t)}
	default:
		return C19Case{Kind: "liststr", S: genListString(t)}
	}
}

// exhaustive sub-domains (thorough tier): all 2^31 durations, all 2^32 timestamps, every string
// over the parsers' alphabet up to length 5 - split over the shards.
func exhaustiveC19(ev *Evid) (C19Case, []Finding) {
	shard, _ := strconv.Atoi(os.Getenv("VERIF_SHARD"))
	shards, _ := strconv.Atoi(os.Getenv("VERIF_SHARDS"))
	if shards < 1 {
		shards = 1
	}
	start := time.Now()
	var n int64
	// durations
	lo := (int64(1) << 31) * int64(shard) / int64(shards)
	hi := (int64(1) << 31) * int64(shard+1) / int64(shards)
	for d := lo; d < hi; d++ {
		s := wt.Duration(d).String()
		got, err := wt.ParseDuration(s)
		if err != nil || int64(got) != d {
			return C19Case{Kind: "duration", Dur: int32(d)}, judgeDur(int32(d))
		}
		// exact meaning of the printed form, cheap inline evaluation
		u := unitSeconds[s[len(s)-1]]
		k, perr := strconv.ParseInt(s[:len(s)-1], 10, 64)
		if perr != nil || k*u != d {
			return C19Case{Kind: "duration", Dur: int32(d)}, judgeDur(int32(d))
		}
		n++
	}
	ev.SetExtra("exhaustive_durations", hi-lo)
	// timestamps
	lo = (int64(1) << 32) * int64(shard) / int64(shards)
	hi = (int64(1) << 32) * int64(shard+1) / int64(shards)
	for ts := lo; ts < hi; ts++ {
		s := wt.Timestamp(ts).String()
		got, err := wt.ParseTimestamp(s)
		if err != nil || int64(got) != ts {
			return C19Case{Kind: "timestamp", TS: uint32(ts)}, judgeTS(uint32(ts))
		}
		if ts%4099 == 0 { // independent calendar check on a 1/4099 lattice (every day-of-year and leap rule is hit)
			if f := judgeTS(uint32(ts)); len(f) > 0 {
				return C19Case{Kind: "timestamp", TS: uint32(ts)}, f
			}
		}
		n++
	}
	ev.SetExtra("exhaustive_timestamps", hi-lo)
	// all strings over the alphabet up to length 5
	alpha := "0123456789smhdwy:,+-"
	var cnt int64
	var bad C19Case
	var rec func(prefix []byte, depth int) []Finding
	idx := int64(0)
	rec = func(prefix []byte, depth int) []Finding {
		if depth > 0 {
			idx++
			if idx%int64(shards) == int64(shard) {
				s := string(prefix)
				if f := judgeDurString(s); len(f) > 0 {
					bad = C19Case{Kind: "durstr", S: s}
					return f
				}
				if f := judgeListString(s); len(f) > 0 {
					bad = C19Case{Kind: "liststr", S: s}
					return f
				}
				cnt++
			}
		}
		if depth == 5 {
			return nil
		}
		for i := 0; i < len(alpha); i++ {
			if f := rec(append(prefix, alpha[i]), depth+1); len(f) > 0 {
				return f
			}
		}
		return nil
	}
	if f := rec(nil, 0); len(f) > 0 {
		return bad, f
	}
	ev.SetExtra("exhaustive_strings_len<=5", cnt)
	ev.SetExtra("distinct_extra", n+cnt)
	ev.SetExtra("evaluations_extra", n+cnt)
	ev.SetExtra("exhaustive_wall_s", time.Since(start).Seconds())
	ev.exhaustive = true
	return C19Case{}, nil
}

func TestC19(t *testing.T) {
	p := Property[C19Case]{
		ID:          "C19",
		Rule:        "quick: rapid-generated durations (unit multiples +-1, near 2^31, random), timestamps (edges + random), valid layouts (small and hour..year scale; also through the -retentions / -x-files-factor / -agg-method / -from flag values), method values -1..10 and names, and strings: boundary numerals x units, random strings over [0-9smhdwy:,+-]{0,7}, signed numerals, overflow boundaries per unit, timestamp strings with one malformed field/zone/separator, retention lists printed by the harness with arbitrary unit choices and then mutated. Oracles: parse(print(x)) == x; printed text evaluated independently (number x unit table, big integers; own days-from-civil calendar) equals x; every accepted string has exactly the independently computed meaning and fits 31 bits; malformed classes are rejected. Lists: single archives at the 31-bit retention boundary (2^31-1 s is valid), and valid lists written in another order (may be rejected, never reordered). Non-trivial (quick): durations not a multiple of 60 or within +-1 of a unit multiple or near 2^31; all string cases. thorough adds the exhaustive sub-domains: all 2^31 durations, all 2^32 timestamps, all strings over the alphabet up to length 5 (exhaustive=true refers to those).",
		Assumptions: []string{"timestamp strings outside years 1970-2106 are not generated (Z9)", "numerals with redundant leading zeros and fractional seconds: no verdict asserted"},
		Gen:         genC19,
		Run:         runC19,
		Fixed: func() []C19Case {
			var out []C19Case
			for _, n := range durBoundaryNumerals {
				for _, u := range []string{"s", "m", "h", "d", "w", "y", ""} {
					out = append(out, C19Case{Kind: "durstr", S: n + u})
				}
			}
			for m := -1; m <= 10; m++ {
				out = append(out, C19Case{Kind: "method", M: m})
			}
			out = append(out, C19Case{Kind: "concurrent", TS: 1500000000, Dur: 86400}, C19Case{Kind: "concurrent", TS: 4294000000, Dur: 2147480000})
			// every byte value in the unit position (an unknown unit is an error, whatever the byte)
			for b := 0; b < 256; b++ {
				if strings.IndexByte("0123456789", byte(b)) >= 0 {
					continue
				}
				for _, str := range []string{"1" + string([]byte{byte(b)}), "120" + string([]byte{byte(b)}), "1" + string([]byte{byte(b)}) + ":60s", "1s:60" + string([]byte{byte(b)}), "1s:2s,2s:8" + string([]byte{byte(b)})} {
					out = append(out, C19Case{Kind: "durstr", Hex: hex.EncodeToString([]byte(str))}, C19Case{Kind: "liststr", Hex: hex.EncodeToString([]byte(str))})
				}
			}
			for _, s := range []string{"", "s", "1", "1ss", "1sm", "+1s", "-1s", "1s:", ":1s", "1s:1s,", ",1s:1s", "1s:3s,2s:3s", "2s:3s", "1s:20y,1m:40y", "1s:2s,1s:4s", "1s:4s,2s:4s", "1s:1s,2s:4s", "1s:2s,3s:6s", "2s:4s,3s:9s", "0s:0s", "1s:0s", "0s:1s",
				"2147483647s:2147483647s", "2147483646s:2147483646s", "2147483648s:2147483648s", "1073741823s:2147483646s", "1073741824s:2147483648s", "1s:2147483647s",
				"1m:1h,1s:1m", "2s:4s,1s:2s", "1s:2s,4s:8s,2s:4s"} {
				out = append(out, C19Case{Kind: "liststr", S: s}, C19Case{Kind: "durstr", S: s})
			}
			return out
		},
	}
	if tier() == "thorough" {
		p.Pre = exhaustiveC19
	}
	RunProperty(t, p)
}
