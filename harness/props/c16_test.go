package props

import (
	"errors"
	"fmt"
	"os"
	"path/filepath"
	"strings"
	"syscall"
	"testing"

	wt "github.com/hnakamur/whispertool"
	"github.com/hnakamur/whispertool/cmd"
	"pgregory.net/rapid"
)

// C16 - commands fail loudly: no panic and no silent success.
type C16Case struct {
	// E2E, when set, is an end-to-end case (the built binary, exit statuses; see c16_e2e_test.go)
	E2E       *C16E2E     `json:"e2e,omitempty"`
	// Cut, when set, is a listing-cut case (see c16_cut_test.go)
	Cut *C16Cut `json:"cut,omitempty"`
	Now       int64       `json:"now"`
	Cmd       string      `json:"cmd"` // view view-raw diff copy sum sum-copy sum-diff generate
	Files     []TreeFile  `json:"files"`
	DestMode  string      `json:"dest_mode"` // absent | same | perturbed
	Perturb   []SlotWrite `json:"perturb,omitempty"`
	From      int64       `json:"from"`
	Until     int64       `json:"until"`
	ArchiveID int         `json:"archive_id"`
	Fault     string      `json:"fault"` // none textout-nodir textout-isdir textout-devfull missing-src corrupt-src corrupt-dest dest-notdir dest-proc dest-readonly
	Corrupt   []byte      `json:"corrupt,omitempty"`
	CopyNaN   bool        `json:"copy_nan"`
	Header    bool        `json:"header"`
	Sort      bool        `json:"sort"`
	Fill      bool        `json:"fill"`
	// FaultIndex: which of the summed files the corrupt-src fault damages (sum / sum-copy / sum-diff)
	FaultIndex int `json:"fault_index,omitempty"`
}

func runC16(c C16Case, ev *Evid) (fs []Finding) {
	if c.E2E != nil {
		return runC16E2E(*c.E2E, ev)
	}
	if c.Cut != nil {
		return runC16Cut(*c.Cut, ev)
	}
	add := func(key, format string, args ...interface{}) {
		fs = append(fs, Finding{Property: "C16", Key: key, Detail: fmt.Sprintf(format, args...)})
	}
	dir := scratchDir()
	defer os.RemoveAll(dir)
	now := c.Now
	until := effUntil(c.Until, now)
	l := c.Files[0].Spec.L
	srcBase := filepath.Join(dir, "src")
	if err := buildTree(srcBase, c.Files, now); err != nil {
		add("setup", "%v", err)
		return
	}
	first := c.Files[0]
	firstRel := first.Dir + "/" + first.Name
	item := strings.ReplaceAll(first.Dir, "/", ".")
	switch c.Fault {
	case "missing-src":
		for _, f := range c.Files {
			if f.Dir == first.Dir {
				os.Remove(filepath.Join(srcBase, f.Dir, f.Name))
			}
		}
	case "dangling-link-src":
		// a name the file pattern matches but that cannot be opened (a link whose target is gone; a file removed
		// after the listing looks the same to the command)
		os.Symlink("gone-target.wsp", filepath.Join(srcBase, first.Dir, "zz-gone.wsp"))
	case "corrupt-src":
		rel := firstRel
		if c.FaultIndex > 0 && c.FaultIndex < len(c.Files) && (c.Cmd == "sum" || c.Cmd == "sum-copy" || c.Cmd == "sum-diff") {
			// (the k-th of the summed files, not the first)
			rel = c.Files[c.FaultIndex].Dir + "/" + c.Files[c.FaultIndex].Name
		}
		os.WriteFile(filepath.Join(srcBase, rel), c.Corrupt, 0644)
	}
	globDiff := c.Cmd == "diff" && len(c.Files) > 1 && c.DestMode != "absent" && c.Fault != "missing-src" && c.Fault != "corrupt-src" && c.Fault != "corrupt-dest" && c.Fault != "layout-mismatch-dest" && c.Fault != "pattern-matches-dirs"
	// two runs: the baseline (text-out to a regular file, no text-out fault) and the faulty one
	type runResult struct {
		err     error
		out     string
		destDir string
	}
	doRun := func(tag string, textOut func(d string) string, destFault bool) (runResult, bool) {
		destBase := filepath.Join(dir, "dest-"+tag)
		os.MkdirAll(destBase, 0755)
		if c.DestMode != "absent" && c.Cmd != "generate" {
			var dfiles []TreeFile
			df := first
			if globDiff {
				df = c.Files[len(c.Files)-1]
			}
			if c.Cmd == "sum-copy" || c.Cmd == "sum-diff" {
				df.Name = "sum.wsp"
			}
			dfiles = append(dfiles, df)
			if err := buildTree(destBase, dfiles, now); err != nil {
				add("setup", "%v", err)
				return runResult{}, false
			}
			if c.DestMode == "perturbed" && df.Spec.L.String() == l.String() {
				if err := modifyFile(filepath.Join(destBase, df.Dir, df.Name), c.Perturb, now); err != nil {
					add("setup", "%v", err)
					return runResult{}, false
				}
			}
		}
		if c.Fault == "corrupt-dest" && c.Cmd != "generate" {
			// an existing destination whose header is damaged (same cases as the corrupt source)
			df := first
			if c.Cmd == "sum-copy" || c.Cmd == "sum-diff" {
				df.Name = "sum.wsp"
			}
			p := filepath.Join(destBase, df.Dir, df.Name)
			os.MkdirAll(filepath.Dir(p), 0755)
			if b, err := os.ReadFile(p); err == nil && len(c.Corrupt) == 4 {
				copy(b, c.Corrupt) // only the aggregation-method field is replaced
				os.WriteFile(p, b, 0644)
			} else {
				os.WriteFile(p, c.Corrupt, 0644)
			}
		}
		if c.Fault == "layout-mismatch-dest" && c.Cmd != "generate" && c.DestMode != "absent" {
			// the existing destination has another layout (a longer last archive, one archive fewer, or one more)
			df := first
			if c.Cmd == "sum-copy" || c.Cmd == "sum-diff" {
				df.Name = "sum.wsp"
			}
			p := filepath.Join(destBase, df.Dir, df.Name)
			os.Remove(p)
			if err := buildFile(p, FileSpec{L: subtleLayoutVariant(l)}, now); err != nil {
				add("setup", "%v", err)
				return runResult{}, false
			}
		}
		effDest := destBase
		if destFault {
			switch c.Fault {
			case "dest-notdir":
				blocker := filepath.Join(dir, "blocker-"+tag)
				os.WriteFile(blocker, []byte("x"), 0644)
				effDest = filepath.Join(blocker, "sub")
			case "dest-proc":
				effDest = "/proc/verif-no-such-dir"
			}
		}
		to := textOut(filepath.Join(dir, "out-"+tag))
		from, unt := wt.Timestamp(c.From), wt.Timestamp(c.Until)
		var cc cmd.Command
		switch c.Cmd {
		case "view":
			cc = &cmd.ViewCommand{SrcBase: srcBase, SrcRelPath: firstRel, From: from, Until: unt, ArchiveID: c.ArchiveID, ShowHeader: c.Header, TextOut: to}
		case "view-raw":
			cc = &cmd.ViewRawCommand{SrcBase: srcBase, SrcRelPath: firstRel, From: from, Until: unt, ArchiveID: c.ArchiveID, ShowHeader: c.Header, SortsByTime: c.Sort, TextOut: to}
		case "diff":
			cc = &cmd.DiffCommand{SrcBase: srcBase, SrcRelPath: firstRel, DestBase: effDest, From: from, Until: unt, ArchiveID: c.ArchiveID, TextOut: to}
			if c.Fault == "pattern-matches-dirs" {
				cc.(*cmd.DiffCommand).SrcRelPath = "s?"
			} else if globDiff {
				// several source files, a destination only for the last one: every earlier file is "missing on
				// the destination side" and the run must not end clean
				cc.(*cmd.DiffCommand).SrcRelPath = first.Dir + "/*.wsp"
			}
		case "copy":
			if c.Fault == "pattern-matches-dirs" {
				firstRel = "s?" // matches the item directory s1, no file
			}
			cc = &cmd.CopyCommand{SrcBase: srcBase, SrcRelPath: firstRel, DestBase: effDest, AggregationMethod: wt.AggregationMethod(l.Method), XFilesFactor: l.XFF, ArchiveInfoList: wtArchives(l), From: from, Until: unt, ArchiveID: c.ArchiveID, CopyNaN: c.CopyNaN, TextOut: to}
		case "sum":
			cc = &cmd.SumCommand{SrcBase: srcBase, ItemPattern: first.Dir, SrcPattern: "*.wsp", From: from, Until: unt, ArchiveID: c.ArchiveID, ShowHeader: c.Header, TextOut: to}
		case "sum-copy":
			cc = &cmd.SumCopyCommand{SrcBase: srcBase, DestBase: effDest, ItemPattern: first.Dir, SrcPattern: "*.wsp", DestRelPath: "sum.wsp", AggregationMethod: wt.AggregationMethod(l.Method), XFilesFactor: l.XFF, ArchiveInfoList: wtArchives(l), From: from, Until: unt, ArchiveID: c.ArchiveID, TextOut: to}
		case "sum-diff":
			cc = &cmd.SumDiffCommand{SrcBase: srcBase, ItemPattern: first.Dir, SrcPattern: "*.wsp", DestBase: effDest, DestRelPath: "sum.wsp", From: from, Until: unt, ArchiveID: c.ArchiveID, TextOut: to}
		case "generate":
			cc = &cmd.GenerateCommand{Dest: filepath.Join(effDest, "gen.wsp"), Perm: 0644, AggregationMethod: wt.AggregationMethod(l.Method), XFilesFactor: l.XFF, ArchiveInfoList: wtArchives(l), RandMax: 10, Fill: c.Fill, TextOut: to}
		}
		asNobody := destFault && c.Fault == "dest-readonly" && os.Geteuid() == 0
		if asNobody {
			// the checks run as root, for whom nothing is read-only: the destination tree is made read-only
			// and the command is executed with the effective uid of "nobody" (restored right afterwards)
			os.Chmod(dir, 0755)
			filepath.Walk(destBase, func(p string, info os.FileInfo, err error) error {
				if err == nil {
					if info.IsDir() {
						os.Chmod(p, 0555)
					} else {
						os.Chmod(p, 0444)
					}
				}
				return nil
			})
			os.MkdirAll(filepath.Dir(to), 0777)
			os.Chmod(filepath.Dir(to), 0777)
			if e := syscall.Seteuid(65534); e != nil {
				asNobody = false
			}
		}
		err, pm := runCommand(now, cc)
		if asNobody {
			syscall.Seteuid(0)
			filepath.Walk(destBase, func(p string, info os.FileInfo, err error) error {
				if err == nil {
					os.Chmod(p, 0755)
				}
				return nil
			})
		}
		if pm != "" {
			add("panic", "%s (%s run) now=%d from=%d until=%d archive=%d fault=%s dest=%s layout=%s: panicked: %s", c.Cmd, tag, now, c.From, c.Until, c.ArchiveID, c.Fault, c.DestMode, l, pm)
			return runResult{}, false
		}
		out := ""
		if st, serr := os.Stat(to); serr == nil && st.Mode().IsRegular() {
			out = readText(to)
		}
		return runResult{err: err, out: out, destDir: effDest}, true
	}
	regular := func(d string) string { return d + ".txt" }
	textFault := strings.HasPrefix(c.Fault, "textout-")
	destFault := strings.HasPrefix(c.Fault, "dest-")
	base, ok := doRun("base", regular, false)
	if !ok {
		return
	}
	desc := fmt.Sprintf("%s now=%d from=%d until=%d archive=%d fault=%s dest=%s copyNaN=%v layout=%s", c.Cmd, now, c.From, c.Until, c.ArchiveID, c.Fault, c.DestMode, c.CopyNaN, l)

	// ---- (1) a nil return implies the command's effect (baseline run)
	idBad := c.Cmd != "generate" && (c.ArchiveID < -1 || c.ArchiveID >= len(l.Archives))
	srcBad := (c.Fault == "missing-src" || c.Fault == "corrupt-src") && c.Cmd != "generate"
	if c.Fault == "dangling-link-src" && (c.Cmd == "sum" || c.Cmd == "sum-copy" || c.Cmd == "sum-diff" || globDiff) {
		srcBad = true
	}
	if c.Fault == "pattern-matches-dirs" && (c.Cmd == "copy" || c.Cmd == "diff") {
		srcBad = true
	}
	lm := layoutMap(srcBase, c.Files)
	if base.err == nil {
		switch {
		case idBad:
			add("silent-success", "%s: archive id out of range but the command reported success", desc)
			return
		case srcBad:
			add("silent-success", "%s: the source is missing or corrupt but the command reported success", desc)
			return
		case c.From > until && (c.Cmd == "view" || c.Cmd == "sum" || c.Cmd == "diff" || c.Cmd == "copy" || c.Cmd == "sum-copy" || c.Cmd == "sum-diff"):
			// (wherever the two ends lie with respect to the clock and the retentions)
			add("silent-success", "%s: the window is inverted (from is after until), which every fetch refuses, but the command reported success", desc)
			return
		case c.Fault == "corrupt-dest" && c.DestMode != "absent" && (c.Cmd == "diff" || c.Cmd == "copy" || c.Cmd == "sum-copy" || c.Cmd == "sum-diff"):
			add("silent-success", "%s: the existing destination's header is damaged but the command reported success", desc)
			return
		case c.Fault == "layout-mismatch-dest" && c.DestMode != "absent" && (c.Cmd == "diff" || c.Cmd == "copy" || c.Cmd == "sum-copy" || c.Cmd == "sum-diff"):
			add("silent-success", "%s: the existing destination has the layout %s, which does not match, but the command reported success", desc, subtleLayoutVariant(l))
			return
		}
		destFile := filepath.Join(base.destDir, first.Dir, first.Name)
		switch c.Cmd {
		case "view":
			fetched, _ := readArchives(filepath.Join(srcBase, firstRel), l, c.From, until, now)
			want := 0
			for a := range l.Archives {
				if (c.ArchiveID == -1 || c.ArchiveID == a) && !fetched[a].Nil {
					want += len(fetched[a].S.Values)
				}
			}
			got := strings.Count(base.out, "\tval:")
			if got != want || (c.Header && !strings.Contains(base.out, "aggMethod:")) {
				add("effect-missing", "%s: success, but the output has %d point records (expected %d), header requested=%v", desc, got, want, c.Header)
				return
			}
		case "view-raw":
			if c.Header && !strings.Contains(base.out, "aggMethod:") {
				add("effect-missing", "%s: success, but no header was printed", desc)
				return
			}
			if c.From == 0 && c.Until == 0 {
				want := int64(0)
				for a, ar := range l.Archives {
					if c.ArchiveID == -1 || c.ArchiveID == a {
						want += ar.Points
					}
				}
				b, _ := os.ReadFile(filepath.Join(srcBase, firstRel))
				if f, perr := ParseWsp(b); perr == nil {
					// slots dated after `now` are outside the default range
					for a := range f.Slots {
						if c.ArchiveID == -1 || c.ArchiveID == a {
							for _, s := range f.Slots[a] {
								if int64(s.Interval) > now {
									want--
								}
							}
						}
					}
				}
				if got := int64(strings.Count(base.out, "\tval:")); got != want {
					add("effect-missing", "%s: success, but %d raw records were printed for %d physical slots", desc, got, want)
					return
				}
			}
		case "sum":
			e := expectedSum(srcBase, item, "*.wsp", c.ArchiveID, c.From, until, now, lm)
			if e.NotExist || e.Mismatch {
				add("silent-success", "%s: nothing summable (notExist=%v mismatch=%v) but success", desc, e.NotExist, e.Mismatch)
				return
			}
			got, perr := parsePointRecords(parseLTSV(base.out))
			if perr != "" {
				add("effect-missing", "%s: %s", desc, perr)
				return
			}
			if d := compareSeriesRecords(got, e.Series); d != "" {
				add("effect-missing", "%s: success, but %s", desc, d)
				return
			}
		case "copy":
			S, _ := readArchives(filepath.Join(srcBase, firstRel), l, c.From, until, now)
			A, aerr := readArchives(destFile, l, c.From, until, now)
			if aerr != nil {
				add("effect-missing", "%s: success, but the destination cannot be read: %v", desc, aerr)
				return
			}
			for a := range l.Archives {
				if (c.ArchiveID != -1 && c.ArchiveID != a) || S[a].Nil {
					continue
				}
				for k, sv := range S[a].S.Values {
					if sv == sv && (A[a].Nil || k >= len(A[a].S.Values) || !(A[a].S.Values[k] == sv)) {
						add("effect-missing", "%s: success, but archive %d slot t=%d of the destination does not hold the source's value %s", desc, a, S[a].S.From+int64(k)*S[a].S.Step, fstr(sv))
						return
					}
					if c.CopyNaN && sv != sv && !A[a].Nil && k < len(A[a].S.Values) && A[a].S.Values[k] == A[a].S.Values[k] {
						// -copy-nan: a hole of the source is part of what is copied (round 10, C16s)
						add("effect-missing", "%s: success with -copy-nan, but archive %d slot t=%d of the destination still holds %s where the source has no value", desc, a, S[a].S.From+int64(k)*S[a].S.Step, fstr(A[a].S.Values[k]))
						return
					}
				}
			}
		case "sum-copy":
			e := expectedSum(srcBase, item, "*.wsp", c.ArchiveID, c.From, until, now, lm)
			A, aerr := readArchives(filepath.Join(base.destDir, first.Dir, "sum.wsp"), l, c.From, until, now)
			if aerr != nil || e.NotExist || e.Mismatch {
				add("effect-missing", "%s: success, but the destination cannot be read (%v) or nothing was summable", desc, aerr)
				return
			}
			for a, s := range e.Series {
				if s == nil {
					continue
				}
				for k, v := range s.Values {
					if A[a].Nil || k >= len(A[a].S.Values) || !(sameF(A[a].S.Values[k], v) || A[a].S.Values[k] == v) {
						add("effect-missing", "%s: success, but archive %d slot t=%d of the destination is not the sum %s", desc, a, s.From+int64(k)*s.Step, fstr(v))
						return
					}
				}
			}
		case "diff":
			if globDiff {
				add("silent-success", "%s: glob diff over %d source files of which only the last has a destination reported no difference", desc, len(c.Files))
				return
			}
			if !fileExists(destFile) {
				add("silent-success", "%s: the destination file is missing but diff reported no difference", desc)
				return
			}
			S, _ := readArchives(filepath.Join(srcBase, firstRel), l, c.From, until, now)
			D, _ := readArchives(destFile, l, c.From, until, now)
			if E, _ := expectedDiff(l, c.ArchiveID, S, D); len(E) > 0 {
				add("silent-success", "%s: %d slots differ (first: archive %d t=%d) but diff reported none", desc, len(E), E[0].Arch, E[0].T)
				return
			}
		case "sum-diff":
			sumDest := filepath.Join(base.destDir, first.Dir, "sum.wsp")
			if !fileExists(sumDest) {
				add("silent-success", "%s: the destination file is missing but sum-diff reported no difference", desc)
				return
			}
			if !srcBad {
				e := expectedSum(srcBase, item, "*.wsp", c.ArchiveID, c.From, until, now, lm)
				if !e.NotExist && !e.Mismatch {
					D, _ := readArchives(sumDest, l, c.From, until, now)
					S := make([]fetchResult, len(l.Archives))
					for a := range S {
						if s := e.Series[a]; s != nil {
							S[a] = fetchResult{S: *s}
						} else {
							S[a] = fetchResult{Nil: true}
						}
					}
					if E, _ := expectedDiff(l, c.ArchiveID, S, D); len(E) > 0 {
						add("silent-success", "%s: the destination deviates from the sum in %d slots but sum-diff reported none", desc, len(E))
						return
					}
				}
			}
		case "generate":
			b, rerr := os.ReadFile(filepath.Join(base.destDir, "gen.wsp"))
			if rerr != nil || string(b[:minInt(len(b), 16+12*len(l.Archives))]) != string(EncodeLayoutHeader(l)) {
				add("effect-missing", "%s: success, but no file with the requested header exists (%v)", desc, rerr)
				return
			}
		}
	} else if errors.Is(base.err, cmd.ErrDiffFound) && (c.Cmd != "diff" && c.Cmd != "sum-diff") {
		add("wrong-error", "%s: %q from a command that does not compare", desc, base.err)
		return
	}

	// ---- (2) the faulty run
	if textFault || destFault {
		tf := regular
		if c.Fault == "dest-readonly" {
			tf = func(d string) string { return filepath.Join(d+".w", "out.txt") }
		}
		switch c.Fault {
		case "textout-nodir":
			tf = func(d string) string { return filepath.Join(d, "no", "such", "dir", "out.txt") }
		case "textout-isdir":
			tf = func(d string) string { os.MkdirAll(d+".dir", 0755); return d + ".dir" }
		case "textout-devfull":
			tf = func(d string) string { return "/dev/full" }
		}
		faulty, ok := doRun("fault", tf, destFault)
		if !ok {
			return
		}
		if faulty.err == nil {
			switch {
			case c.Fault == "textout-nodir" || c.Fault == "textout-isdir":
				add("silent-success", "%s: the text output cannot be opened but the command reported success", desc)
				return
			case c.Fault == "textout-devfull" && len(base.out) > 0 && base.err == nil:
				add("silent-success", "%s: %d bytes of text output could not be written (device full) but the command reported success", desc, len(base.out))
				return
			case c.Fault == "dest-readonly" && os.Geteuid() != 0:
				// cannot lower privileges: nothing to assert
			case c.Fault == "dest-readonly" && (c.Cmd == "copy" || c.Cmd == "sum-copy") && base.err == nil && c.DestMode == "same":
				// destination identical to the source / the sum: nothing has to be written, success is legitimate
			case destFault && (c.Cmd == "copy" || c.Cmd == "sum-copy" || c.Cmd == "generate") && base.err == nil:
				add("silent-success", "%s: the destination cannot be created but the command reported success", desc)
				return
			}
		}
	}
	nontrivial := c.Fault != "none" || c.ArchiveID != -1 || c.From != 0 || c.Until != 0
	cls := []string{"cmd=" + c.Cmd, "fault=" + c.Fault}
	if idBad {
		cls = append(cls, "archive-out-of-range")
	} else if c.ArchiveID >= 0 {
		cls = append(cls, "single-archive")
	}
	cls = append(cls, "baseline="+errClass(base.err))
	ev.Count(HashJSON(c), nontrivial, cls...)
	if nontrivial && ev.WantSample() && len(c.Files) == 1 && len(c.Files[0].Spec.Writes) < 8 {
		ev.Sample(c)
	}
	return nil
}

func minInt(a, b int) int {
	if a < b {
		return a
	}
	return b
}

func genC16(t *rapid.T) C16Case {
	if os.Getenv("VERIF_CLI") != "" && rapid.IntRange(0, 149).Draw(t, "e2e") == 113 {
		// the binary itself: a layout whose finest archive keeps at least a minute (the scenarios write values a
		// few steps old at the real clock)
		o := defaultLayoutOpts()
		o.AllowMultiPage = false
		o.MaxArchives = 3
		l := genLayout(t, o)
		if l.Archives[0].Points < 30 {
			d := 30 - l.Archives[0].Points
			for i := range l.Archives {
				l.Archives[i].Points += d * l.Archives[0].Step / l.Archives[i].Step * 2
			}
			l.Archives[0].Points = 30
			for i := 1; i < len(l.Archives); i++ {
				if need := floorDiv(l.Archives[i-1].Ret(), l.Archives[i].Step) + 1; l.Archives[i].Points < need {
					l.Archives[i].Points = need
				}
			}
		}
		e := C16E2E{L: l, Differ: F64(genDyadic(t) + 0.0625)}
		for n := rapid.IntRange(1, 6).Draw(t, "e2eValues"); n > 0; n-- {
			e.V = append(e.V, F64(genDyadic(t)))
		}
		return C16Case{E2E: &e}
	}
	if rapid.IntRange(0, 79).Draw(t, "listingCut") == 0 {
		l := genCLILayout(t)
		if l.FileSize() > 1<<16 {
			l = Layout{Archives: []Arch{{Step: 1, Points: 60}, {Step: 60, Points: 60}}, Method: 1, XFF: 0.5}
		}
		n := rapid.IntRange(2, 6).Draw(t, "cutNames")
		return C16Case{Cut: &C16Cut{L: l, Now: genNowRealistic(t, l), Cmd: rapid.SampledFrom([]string{"copy", "diff", "sum"}).Draw(t, "cutCmd"), Names: n, Keep: rapid.IntRange(1, n-1).Draw(t, "cutKeep")}}
	}
	l := genCLILayout(t)
	now := genNowRealistic(t, l)
	c := C16Case{Now: now, ArchiveID: -1}
	c.Cmd = rapid.SampledFrom([]string{"view", "view-raw", "diff", "copy", "sum", "sum-copy", "sum-diff", "generate"}).Draw(t, "cmd")
	n := rapid.IntRange(1, 3).Draw(t, "files")
	for i := 0; i < n; i++ {
		c.Files = append(c.Files, TreeFile{Dir: "s1", Name: fmt.Sprintf("f%d.wsp", i+1), Spec: genSpec(t, l, now, valDyadic, 10)})
	}
	if (c.Cmd == "sum" || c.Cmd == "sum-copy" || c.Cmd == "sum-diff") && rapid.IntRange(0, 11).Draw(t, "manySources") == 0 {
		// an item with many source files (more than any batch or descriptor budget a reader might use)
		for i, m := n, rapid.IntRange(50, 150).Draw(t, "sourceCount"); i < m; i++ {
			c.Files = append(c.Files, TreeFile{Dir: "s1", Name: fmt.Sprintf("g%03d.wsp", i), Spec: c.Files[i%n].Spec})
		}
	}
	c.DestMode = rapid.SampledFrom([]string{"absent", "same", "perturbed"}).Draw(t, "destMode")
	if c.DestMode == "perturbed" {
		c.Perturb = genWrites(t, l, now, valDyadic, 10)
	}
	c.From, c.Until = genCLIWindow(t, l, now)
	if rapid.IntRange(0, 9).Draw(t, "invertedWindow") == 0 {
		// from after until, with the ends anywhere: both recent, both in the future, both older than the finest or
		// than every retention, or one of each
		spots := []int64{now - 1, now - l.Archives[0].Step, now + 1, now + 3600, now + l.MaxRet(), now - l.Archives[0].Ret() - 1, now - l.Archives[0].Ret() + 1, now - l.MaxRet() - 1, now - l.MaxRet() - 86400, 1, now}
		a := rapid.SampledFrom(spots).Draw(t, "invA")
		b := rapid.SampledFrom(spots).Draw(t, "invB")
		if a == b {
			b = a - 1
		}
		if a < b {
			a, b = b, a
		}
		if b >= 1 {
			c.From, c.Until = a, b
		}
	}
	switch r := rapid.IntRange(0, 9).Draw(t, "archiveSel"); {
	case r < 4:
		c.ArchiveID = rapid.IntRange(0, len(l.Archives)-1).Draw(t, "archive")
	case r < 6:
		c.ArchiveID = rapid.SampledFrom([]int{len(l.Archives), len(l.Archives) + 1, -2, 100}).Draw(t, "badArchive")
	}
	c.Fault = rapid.SampledFrom([]string{"none", "none", "none", "textout-nodir", "textout-isdir", "textout-devfull", "missing-src", "corrupt-src", "corrupt-dest", "dest-notdir", "dest-proc", "dest-readonly", "layout-mismatch-dest", "layout-mismatch-src", "dangling-link-src", "pattern-matches-dirs"}).Draw(t, "fault")
	if c.Fault == "layout-mismatch-src" {
		// one of the summed files has another layout (a longer last archive, one archive fewer, or one more)
		if len(c.Files) < 2 {
			c.Files = append(c.Files, TreeFile{Dir: "s1", Name: "f2.wsp"})
		}
		k := rapid.IntRange(0, len(c.Files)-1).Draw(t, "oddFile")
		vl := subtleLayoutVariant(l)
		c.Files[k].Spec = FileSpec{L: vl, Writes: genWrites(t, vl, now, valDyadic, 10)}
		if k == 0 {
			// (the case's reference layout is the first file's: keep it, give the variant to the others)
			c.Files[0].Spec = genSpec(t, l, now, valDyadic, 10)
			for j := 1; j < len(c.Files); j++ {
				c.Files[j].Spec = FileSpec{L: vl, Writes: genWrites(t, vl, now, valDyadic, 10)}
			}
		}
		for j := range c.Files {
			if c.Files[j].Spec.L.Archives == nil {
				c.Files[j].Spec = genSpec(t, l, now, valDyadic, 10)
			}
		}
	}
	if c.Fault == "corrupt-dest" && rapid.Bool().Draw(t, "methodOnly") {
		c.Corrupt = []byte{0, 0, 0, byte(rapid.SampledFrom([]int{0, 7, 8, 9, 255}).Draw(t, "badMethod"))}
	} else if c.Fault == "corrupt-src" || c.Fault == "corrupt-dest" {
		c.Corrupt, _ = mutateBytes(t, genValidBytes(t, "file"))
		if rapid.Bool().Draw(t, "garbage") {
			c.Corrupt = rapid.SliceOfN(rapid.Byte(), 0, 60).Draw(t, "garbageBytes")
		}
		bigCount := rapid.IntRange(0, 3).Draw(t, "bigCount") == 0
		if bigCount {
			c.Corrupt = genBigCountFile(t)
		}
		// a mutation may leave the file valid: force damage in the header
		if len(c.Corrupt) >= 4 && !bigCount {
			c.Corrupt[3] = 0x7f
		}
	}
	if c.Fault == "corrupt-src" && len(c.Files) > 1 {
		c.FaultIndex = rapid.IntRange(0, len(c.Files)-1).Draw(t, "faultIndex")
	}
	c.CopyNaN = rapid.Bool().Draw(t, "copyNaN")
	c.Header = rapid.Bool().Draw(t, "header")
	c.Sort = rapid.Bool().Draw(t, "sort")
	c.Fill = rapid.Bool().Draw(t, "fill")
	return c
}

func TestC16(t *testing.T) {
	defer cleanupServerRoot()
	RunProperty(t, Property[C16Case]{
		NoteCases:   true,
		ID:          "C16",
		Rule:        "rapid-generated invocations of all eight subcommands x archive selection (all / each id / out of range) x window (default, narrow, past, future, beyond the finest retention, degenerate) x copy-nan / header / sort / fill x destination absent / identical / perturbed x environment fault (none, text-out below a missing directory, text-out = a directory, text-out = /dev/full, source missing, source corrupt, destination base below a regular file, destination base under /proc, existing destination of another layout, a summed source file of another layout, a matched name that cannot be opened (dangling link), a pattern that matches only directories, read-only destination tree with the command run under the effective uid of 'nobody'), at a controlled clock; plus end-to-end cases in which the built cmd/whispertool binary is run (29 invocations: successes, missing inputs, bad archive ids, unopenable text-out, layout mismatches, existing generate target, unknown subcommand or option, missing required option, invalid option values) and judged by its exit status (0 = did its work, 1 = difference found, 2 = failure with a message on stderr). Each case runs a baseline (no text-out / destination fault) and, for those faults, the faulty run. Oracle: no panic escapes Execute; a nil return of the baseline implies the effect (view/sum: the expected point records; view-raw: all physical slots for the default range; copy/sum-copy: destination holds the source's / the sum's values; diff/sum-diff: no differing slot exists; generate: file with the requested header) and is impossible with an out-of-range archive id or a missing/corrupt source; the faulty run must fail when the text output cannot be opened, when a non-empty output cannot be written, or when the destination cannot be created. Inverted windows (from after until, ends anywhere) must be refused by every fetching command; sum-family commands also get items with 50-150 source files. Non-trivial: a fault or a non-default selection/window is present. Distinct = hash of the case.",
		Assumptions: []string{"checks run as root: permission faults are produced by ENOTDIR / EISDIR / /proc / /dev/full, and by temporarily switching the effective uid to 65534 for the read-only destination"},
		Gen:         genC16,
		Run:         runC16,
		Fixed: func() []C16Case {
			// two end-to-end cases in every run (29 invocations of the built binary each, judged by exit status)
			return []C16Case{
				{E2E: &C16E2E{L: Layout{Archives: []Arch{{Step: 1, Points: 120}, {Step: 60, Points: 60}}, Method: 1, XFF: 0.5}, V: []F64{1, 2.5, -3}, Differ: 7.25}},
				{E2E: &C16E2E{L: Layout{Archives: []Arch{{Step: 10, Points: 360}}, Method: 2, XFF: 0}, V: []F64{42}, Differ: -1}},
				{Cut: &C16Cut{L: Layout{Archives: []Arch{{Step: 1, Points: 60}}, Method: 1, XFF: 0.5}, Now: 1500000000, Cmd: "copy", Names: 4, Keep: 2}},
				{Cut: &C16Cut{L: Layout{Archives: []Arch{{Step: 1, Points: 60}}, Method: 1, XFF: 0.5}, Now: 1500000000, Cmd: "diff", Names: 3, Keep: 1}},
				{Cut: &C16Cut{L: Layout{Archives: []Arch{{Step: 1, Points: 60}}, Method: 1, XFF: 0.5}, Now: 1500000000, Cmd: "sum", Names: 3, Keep: 1}},
			}
		},
	})
}
