package props

// Fixture for the command-level properties (C08-C12, C16, C18, C20): a controlled clock for the
// unmodified cmd package (testing/synctest bubble), file builders, content generators and a
// parser for the LTSV text output.

import (
	"fmt"
	"math"
	"net"
	"net/http"
	"os"
	"path/filepath"
	"reflect"
	"strconv"
	"strings"
	"sync"
	"sync/atomic"
	"testing"
	"testing/synctest"
	"time"

	wt "github.com/hnakamur/whispertool"
	"github.com/hnakamur/whispertool/cmd"
	"pgregory.net/rapid"
)

// curT is the *testing.T of the running property (synctest needs one).
var curT *testing.T

// libClockSkew is how far whispertool.Now runs ahead of the command's wall clock inside atClock.
var libClockSkew = time.Second

// atClock runs f with time.Now() == now (Unix seconds) for all code called from f, using a
// synctest bubble: the bubble's fake clock starts at 2000-01-01 and only advances by Sleep.
func atClock(now int64, f func()) (panicMsg string) {
	if curT == nil {
		panic("atClock outside RunProperty")
	}
	done := false
	synctest.Test(curT, func(t *testing.T) {
		// the instant has a sub-second part (a pure function of now, 0-999 ms): real clocks are never on a whole second
		d := time.Unix(now, (now%1000003*7919%1000)*int64(time.Millisecond)).Sub(time.Now())
		if d < 0 {
			panicMsg = "harness: clock target before the bubble epoch"
			return
		}
		time.Sleep(d)
		// the library's own clock (whispertool.Now, consulted only when a caller passes now = 0) runs
		// ahead of the command's clock: a command must take ONE reading and hand it to every library
		// call; one that lets the library read the clock again behaves as if the clock had ticked
		savedNow := wt.Now
		skew := libClockSkew
		wt.Now = func() time.Time { return time.Now().Add(skew) }
		panicMsg = guard(f)
		wt.Now = savedNow
		done = true
	})
	if !done && panicMsg == "" {
		panicMsg = "harness: bubble did not complete"
	}
	return
}

// runCommand executes a command at the given wall clock.
func runCommand(now int64, c cmd.Command) (err error, panicMsg string) {
	wd, _ := os.Getwd()
	prefillTextOut(c)
	c = throughFlags(c)
	if pm := usedBefore(now, c); pm != "" {
		panicMsg = pm
	} else {
		err, panicMsg = executeWatched(now, c)
	}
	if wd != "" {
		os.Chdir(wd)
	}
	return
}

// executeWatched runs the command at the given clock; a command that never returns (blocked on a lock or a limiter
// slot that an earlier, failed command of this process did not release, say) is a finding, not a reason to wait for
// the driver's wall-clock budget.
func executeWatched(now int64, c cmd.Command) (err error, panicMsg string) {
	if commandWedged != "" {
		return nil, "HANG: (not run) " + commandWedged
	}
	type outcome struct {
		err error
		pm  string
	}
	done := make(chan outcome, 1)
	go func() {
		var o outcome
		o.pm = atClock(now, func() { o.err = c.Execute() })
		done <- o
	}()
	select {
	case o := <-done:
		return o.err, o.pm
	case <-time.After(commandWatchdog):
		commandWedged = fmt.Sprintf("an earlier %T.Execute of this process never returned (waited %v)", c, commandWatchdog)
		return nil, fmt.Sprintf("HANG: %T.Execute did not return within %v of real time (it is blocked, for instance on a file lock or a limiter slot that an earlier command of this process left behind)", c, commandWatchdog)
	}
}

const commandWatchdog = 90 * time.Second

// commandWedged is set once a command did not return: what it blocks on is process-wide state, later cases of this
// process would only wait again.
var commandWedged string

// usedBefore executes, for a share of the cases, a reading command value once at an earlier clock with its text
// output discarded before the execution that is judged: a command value is a description of what to do, and
// doing it once must not change what it describes (whatever the earlier run returns is of no interest here).
var usedBeforeCount int64

func usedBefore(now int64, c cmd.Command) (hang string) {
	switch c.(type) {
	case *cmd.ViewCommand, *cmd.ViewRawCommand, *cmd.SumCommand, *cmd.DiffCommand, *cmd.SumDiffCommand:
	default:
		return
	}
	salt := caseSalt()
	if salt%5 != 3 {
		return
	}
	earlier := now - 1 - int64(salt/5%5000)
	if earlier <= 0 {
		return
	}
	f := reflect.ValueOf(c).Elem().FieldByName("TextOut")
	if !f.IsValid() || f.Kind() != reflect.String {
		return
	}
	saved := f.String()
	f.SetString("")
	_, pm := executeWatched(earlier, c)
	f.SetString(saved)
	atomic.AddInt64(&usedBeforeCount, 1)
	if strings.HasPrefix(pm, "HANG") {
		return pm
	}
	return ""
}

// ---------------------------------------------------------------------------------------------
// file builders

type SlotWrite struct {
	Arch int   `json:"a"`
	T    int64 `json:"t"`
	V    F64   `json:"v"`
}

// FileSpec describes a whisper file as a layout plus named-archive single updates applied in
// order at clock Now (each update also propagates to coarser archives, later writes override).
type FileSpec struct {
	L      Layout      `json:"layout"`
	Writes []SlotWrite `json:"writes,omitempty"`
	// Fill > 0: additionally the newest Fill slots of archive 0 get the value FillBase + index
	// (one batch), to build large files without a large case description.
	Fill     int64 `json:"fill,omitempty"`
	FillBase F64   `json:"fill_base,omitempty"`
}

func buildFile(path string, spec FileSpec, now int64) error {
	if err := os.MkdirAll(filepath.Dir(path), 0755); err != nil {
		return err
	}
	db, err := createWT(path, spec.L)
	if err != nil {
		return err
	}
	defer db.Close()
	if spec.Fill > 0 {
		var pts []MPoint
		for i := int64(0); i < spec.Fill && i < spec.L.Archives[0].Points; i++ {
			pts = append(pts, MPoint{T: now - i*spec.L.Archives[0].Step, V: F64(float64(spec.FillBase) + float64(i))})
		}
		if err, pm := batchWT(db, pts, 0, now); err != nil || pm != "" {
			return fmt.Errorf("setup fill failed: %v %s", err, pm)
		}
	}
	if err := applyWrites(db, spec.Writes, now); err != nil {
		return err
	}
	return db.Sync()
}

func applyWrites(db *wt.Whisper, ws []SlotWrite, now int64) error {
	for _, w := range ws {
		err, pm := updateWT(db, w.Arch, w.T, float64(w.V), now)
		if pm != "" {
			return fmt.Errorf("setup write panicked: %s", pm)
		}
		if err != nil {
			return fmt.Errorf("setup write (arch %d t %d now %d): %v", w.Arch, w.T, now, err)
		}
	}
	return nil
}

// modifyFile applies further writes to an existing file.
func modifyFile(path string, ws []SlotWrite, now int64) error {
	db, err := openWT(path)
	if err != nil {
		return err
	}
	defer db.Close()
	if err := applyWrites(db, ws, now); err != nil {
		return err
	}
	return db.Sync()
}

// readArchives fetches the given window of every archive (library, explicit clock).
func readArchives(path string, l Layout, from, until, now int64) ([]fetchResult, error) {
	db, err := openWT(path, wt.WithoutFlock(), wt.WithOpenFileFlag(os.O_RDONLY))
	if err != nil {
		return nil, err
	}
	defer db.Close()
	out := make([]fetchResult, len(l.Archives))
	for a := range l.Archives {
		out[a] = fetchWT(db, a, from, until, now)
	}
	return out, nil
}

type valueKind int

const (
	valGeneral   valueKind = iota
	valDyadic              // exactly summable
	valPrintable           // values whose text needs many digits, infinities (view)
)

func genFileValue(t *rapid.T, k valueKind) float64 {
	switch k {
	case valDyadic:
		if rapid.IntRange(0, 39).Draw(t, "dyInf") == 0 {
			// +Inf: sums with it are exact and order-independent too (never -Inf here: with both signs in one slot
			// the outcome of a NaN-skipping running sum depends on the order; C10 has a two-file case for that)
			return math.Inf(1)
		}
		return float64(rapid.Int64Range(-1<<20, 1<<20).Draw(t, "dy")) / 8
	case valPrintable:
		switch rapid.IntRange(0, 5).Draw(t, "pk") {
		case 0:
			return rapid.SampledFrom([]float64{math.Inf(1), math.Inf(-1), 0.1, 1.0 / 3, 123456789.12345679, 5e-324, 1.7976931348623157e308, -0.30000000000000004, 1e21, 1e-7}).Draw(t, "pv")
		case 1:
			return math.Float64frombits(rapid.Uint64Range(0x3ff0000000000000, 0x4340000000000000).Draw(t, "pbits"))
		}
		return genValue(t)
	}
	return genValue(t)
}

// genWrites draws contents for a layout: per archive a density, slots taken from the newest
// part of the retention and a few anywhere in it; optional NaN-valued writes.
func genWrites(t *rapid.T, l Layout, now int64, k valueKind, nanPct int) []SlotWrite {
	var ws []SlotWrite
	order := make([]int, len(l.Archives))
	for i := range order {
		order[i] = i
	}
	if len(order) > 2 && rapid.IntRange(0, 3).Draw(t, "fineThenCoarsest") == 0 {
		// only the finest archive is written (so every level is the aggregate of the one below), then the
		// coarsest archive alone is overwritten by name: consistent up to the last level, inconsistent there
		order = []int{0, len(l.Archives) - 1}
	} else if len(order) > 1 && rapid.Bool().Draw(t, "coarseLast") {
		// finer archives first, coarser ones by name afterwards: coarser archives are then NOT the aggregate of the finer ones
	} else if len(order) > 1 {
		order = rapid.Permutation(order).Draw(t, "archOrder")
	}
	for _, a := range order {
		ar := l.Archives[a]
		density := rapid.SampledFrom([]int{0, 20, 50, 90, 100}).Draw(t, "density")
		span := ar.Points
		if span > 24 {
			span = 24
		}
		for j := int64(0); j < span; j++ {
			if rapid.IntRange(0, 99).Draw(t, "keep") >= density {
				continue
			}
			tt := alignDown(now, ar.Step) - j*ar.Step
			if now-tt >= l.MaxRet() || tt > now {
				continue
			}
			v := genFileValue(t, k)
			if nanPct > 0 && rapid.IntRange(0, 99).Draw(t, "nan") < nanPct {
				v = math.NaN()
			}
			ws = append(ws, SlotWrite{Arch: a, T: tt, V: F64(v)})
		}
		// a few older slots
		if ar.Points > span {
			n := rapid.IntRange(0, 3).Draw(t, "older")
			for i := 0; i < n; i++ {
				age := rapid.Int64Range(0, ar.Ret()-1).Draw(t, "olderAge")
				if age >= l.MaxRet() {
					continue
				}
				ws = append(ws, SlotWrite{Arch: a, T: now - age, V: F64(genFileValue(t, k))})
			}
		}
	}
	return ws
}

// genSpec draws a file: generated writes, and for archives of hundreds / thousands of slots additionally a
// filled run of the newest slots (values FillBase + index, exactly summable), so that commands move more
// points than any internal block, chunk or batch size.
func genSpec(t *rapid.T, l Layout, now int64, k valueKind, nanPct int) FileSpec {
	spec := FileSpec{L: l, Writes: genWrites(t, l, now, k, nanPct)}
	if n := l.Archives[0].Points; n > 300 && rapid.IntRange(0, 3).Draw(t, "bulk") > 0 {
		spec.Fill = rapid.Int64Range(n/2, n).Draw(t, "bulkFill")
		spec.FillBase = F64(float64(rapid.IntRange(-4000, 4000).Draw(t, "bulkBase")) / 8)
	}
	return spec
}

// genCLIWindow draws (from, until) for a command; 0 means "default".
func genCLIWindow(t *rapid.T, l Layout, now int64) (from, until int64) {
	a := l.Archives[rapid.IntRange(0, len(l.Archives)-1).Draw(t, "winArch")]
	switch rapid.IntRange(0, 9).Draw(t, "winKind") {
	case 0, 1, 2:
		return 0, 0
	case 3: // narrow, recent
		f := now - rapid.Int64Range(1, 6*a.Step).Draw(t, "back")
		return f, clampTS(f + rapid.Int64Range(1, 5*a.Step).Draw(t, "len"))
	case 4: // in the past, inside this archive
		f := now - rapid.Int64Range(1, a.Ret()).Draw(t, "back")
		return f, clampTS(f + rapid.Int64Range(0, a.Ret()).Draw(t, "len"))
	case 5: // beyond the finest archive's retention
		f0 := l.Archives[0].Ret()
		f := now - f0 - rapid.Int64Range(1, 3*a.Step+f0).Draw(t, "beyond")
		return f, clampTS(f + rapid.Int64Range(0, f0).Draw(t, "len"))
	case 6: // degenerate
		f := now - rapid.Int64Range(0, a.Ret()).Draw(t, "back")
		return f, f
	case 7: // until in the future (also after 2038) / from 0
		if rapid.IntRange(0, 2).Draw(t, "farFuture") == 0 {
			return 0, rapid.Int64Range(1<<31-2, 1<<32-1).Draw(t, "farUntil")
		}
		return 0, now + rapid.Int64Range(1, 100).Draw(t, "fut")
	case 8: // from given, until default
		return now - rapid.Int64Range(1, a.Ret()+a.Step).Draw(t, "back"), 0
	default:
		f := genInstant(t, l, now, "cliFrom")
		u := genInstant(t, l, now, "cliUntil")
		if f > u {
			f, u = u, f
		}
		return f, u
	}
}

func effUntil(until, now int64) int64 {
	if until == 0 {
		return now
	}
	return until
}

// ---------------------------------------------------------------------------------------------
// LTSV text output

type Record map[string]string

func parseLTSV(text string) []Record {
	var out []Record
	for _, line := range strings.Split(text, "\n") {
		if line == "" {
			continue
		}
		r := Record{}
		for _, f := range strings.Split(line, "\t") {
			i := strings.IndexByte(f, ':')
			if i < 0 {
				r[f] = ""
				continue
			}
			r[f[:i]] = f[i+1:]
		}
		r["_line"] = line
		out = append(out, r)
	}
	return out
}

func parseTime(s string) (int64, bool) {
	v, ok := tsMeaning(s)
	return v, ok
}

func parseVal(s string) (float64, bool) {
	v, err := strconv.ParseFloat(s, 64)
	if err != nil {
		return 0, false
	}
	return v, true
}

func readText(path string) string {
	b, _ := os.ReadFile(path)
	// a text-out file that existed before the run (see prefillTextOut): the command either appends to it or
	// replaces it; what it printed is then what follows the old content / the whole file. A command that
	// overwrites the old content in place leaves part of it behind - those lines stay in what is parsed.
	staleMu.Lock()
	old, ok := staleText[path]
	staleMu.Unlock()
	if ok && strings.HasPrefix(string(b), old) {
		return string(b[len(old):])
	}
	return string(b)
}

var (
	staleMu   sync.Mutex
	staleText = map[string]string{}
)

// prefillTextOut: for a fifth of the cases (by the case's salt) the file named by a command's TextOut option
// already exists, holding realistic records from an "earlier run" (longer than most outputs).
func prefillTextOut(c cmd.Command) {
	v := reflect.ValueOf(c)
	if v.Kind() != reflect.Ptr || v.Elem().Kind() != reflect.Struct {
		return
	}
	f := v.Elem().FieldByName("TextOut")
	if !f.IsValid() || f.Kind() != reflect.String {
		return
	}
	p := f.String()
	if p == "" || p == "-" || caseSalt()%5 != 2 {
		return
	}
	if _, err := os.Stat(p); err == nil {
		return // (a file the check itself prepared, or an earlier run of the same case: left alone)
	}
	if st, err := os.Stat(filepath.Dir(p)); err != nil || !st.IsDir() {
		return // (fault cases: unopenable destinations stay as the check made them)
	}
	var sb strings.Builder
	sb.WriteString("aggMethod:sum\taggMethodNum:2\tmaxRetention:9s\txFilesFactor:0.5\tarchiveCount:1\n")
	for i := 0; i < 400; i++ {
		fmt.Fprintf(&sb, "archive:0\tt:1970-01-01T00:%02d:%02dZ\tval:%d\n", i/60, i%60, 900000+i)
	}
	if os.WriteFile(p, []byte(sb.String()), 0644) == nil {
		staleMu.Lock()
		staleText[p] = sb.String()
		staleMu.Unlock()
	}
}

// ---------------------------------------------------------------------------------------------
// one in-process whispertool server per test process (it registers on http.DefaultServeMux)

// serverRelativeBase (set before the first startServer): the server's base directory is given relative to the
// working directory, and the process never changes directory afterwards.
var serverRelativeBase bool

var (
	serverOnce sync.Once
	serverRoot string
	serverURL  string
	serverErr  error
)

// startServer starts `whispertool server` over a per-process root directory, outside any bubble.
func startServer() (root, url string, err error) {
	serverOnce.Do(func() {
		// (a colon in the directory's name: spelled relative to the working directory such a base still is a
		// directory, not a URL)
		serverRoot, serverErr = os.MkdirTemp(scratchBase(), "verif-served:2026-")
		if serverErr != nil {
			return
		}
		ln, err := net.Listen("tcp", "127.0.0.1:0")
		if err != nil {
			serverErr = err
			return
		}
		addr := ln.Addr().String()
		ln.Close()
		baseDir := serverRoot
		if serverRelativeBase {
			// as `whispertool server -base data` started in the parent directory
			if err := os.Chdir(filepath.Dir(serverRoot)); err != nil {
				serverErr = err
				return
			}
			baseDir = filepath.Base(serverRoot)
			noChdir = true
		}
		go func() {
			c := &cmd.ServerCommand{Addr: addr, BaseDir: baseDir}
			serverErr = c.Execute()
		}()
		serverURL = "http://" + addr
		if tr, ok := http.DefaultTransport.(*http.Transport); ok {
			tr.DisableKeepAlives = true
		}
		for i := 0; i < 200; i++ {
			conn, err := net.DialTimeout("tcp", addr, 100*time.Millisecond)
			if err == nil {
				conn.Close()
				return
			}
			time.Sleep(10 * time.Millisecond)
		}
		serverErr = fmt.Errorf("server did not come up on %s", addr)
	})
	return serverRoot, serverURL, serverErr
}

func cleanupServerRoot() {
	if serverRoot != "" {
		os.RemoveAll(serverRoot)
	}
}
