package props

import (
	"bytes"
	"fmt"
	"os"
	"testing"

	wt "github.com/hnakamur/whispertool"
	"pgregory.net/rapid"
)

// C05 - Sync persistence. Invariants over the history, observed through os.ReadFile and the
// independent parser (never through the live handle):
//  (1) the file length is fixed at creation;
//  (2) bytes on disk change only during Sync;
//  (3) after a Sync, the disk (independent parser), a second read-only handle and the live handle
//      agree with the model for every archive and generated window; header bytes never change
//      after the first Sync;
//  (4) at every operation boundary the disk holds exactly the model state as of the last Sync
//      (= what a process that dies there leaves behind); "abandon" ops also drop the handle for
//      real and continue on a fresh one.
func diskVsModel(l Layout, b []byte, m *Model, where string) []Finding {
	f, err := ParseWsp(b)
	if err != nil {
		return []Finding{{Property: "C05", Key: "disk-unparsable", Detail: fmt.Sprintf("%s: file on disk is not a well-formed whisper file: %v", where, err)}}
	}
	if len(f.H.Archives) != len(l.Archives) {
		return []Finding{{Property: "C05", Key: "disk-header", Detail: fmt.Sprintf("%s: %d archives on disk, layout has %d", where, len(f.H.Archives), len(l.Archives))}}
	}
	for a, slots := range f.Slots {
		ar := l.Archives[a]
		n := 0
		for j, s := range slots {
			if s.Interval == 0 {
				continue
			}
			n++
			ms, ok := m.Rings[a][emod(floorDiv(int64(s.Interval), ar.Step), ar.Points)]
			if !ok || ms.interval != int64(s.Interval) || !sameF(ms.value, s.Value) {
				return []Finding{{Property: "C05", Key: "disk-differs", Detail: fmt.Sprintf("%s: archive %d slot %d on disk holds (%d, %s); the last synced state has (%d, %s) present=%v", where, a, j, s.Interval, fstr(s.Value), ms.interval, fstr(ms.value), ok)}}
			}
		}
		if n != len(m.Rings[a]) {
			return []Finding{{Property: "C05", Key: "disk-missing", Detail: fmt.Sprintf("%s: archive %d has %d stored slots on disk, the last synced state has %d", where, a, n, len(m.Rings[a]))}}
		}
	}
	return nil
}

func runC05(c HistCase, ev *Evid) (fs []Finding) {
	h, err := newHistRunner("C05", c.L, c.Now)
	if err != nil {
		return []Finding{{Property: "C05", Key: "create-error", Detail: fmt.Sprintf("Create(%s): %v", c.L, err)}}
	}
	defer h.close()
	size := c.L.FileSize()
	last, err := os.ReadFile(h.path)
	if err != nil || int64(len(last)) != size {
		return []Finding{{Property: "C05", Key: "create-length", Detail: fmt.Sprintf("after Create the file has %d bytes (err %v), header + 12 x points = %d", len(last), err, size)}}
	}
	var headerBytes []byte
	synced := false
	pendingAtAbandon, syncsWithWrites, dirtyPagesMax := 0, 0, 0
	writesSinceSync := 0
	touched := map[int64]bool{}
	hdrLen := 16 + 12*len(c.L.Archives)
	for i, op := range c.Ops {
		h.step = i
		if op.Kind == "abandon" && writesSinceSync > 0 {
			pendingAtAbandon++
		}
		if f := h.apply(op); len(f) > 0 {
			return f
		}
		if h.m.Stats.Z1 {
			ev.Discard("Z1-float32-xff-boundary")
			return nil
		}
		if h.db == nil {
			break
		}
		now, err := os.ReadFile(h.path)
		if err != nil {
			return []Finding{h.finding("disk-read", "%v", err)}
		}
		if int64(len(now)) != size {
			return []Finding{h.finding("length-changed", "file length became %d after %s, it was fixed at %d", len(now), op.Kind, size)}
		}
		switch op.Kind {
		case "sync", "reopen":
			if writesSinceSync > 0 {
				syncsWithWrites++
			}
			writesSinceSync = 0
			if len(touched) > dirtyPagesMax {
				dirtyPagesMax = len(touched)
			}
			touched = map[int64]bool{}
			if headerBytes == nil {
				headerBytes = append([]byte(nil), now[:hdrLen]...)
				if want := EncodeLayoutHeader(c.L); !bytes.Equal(headerBytes, want) {
					return []Finding{h.finding("header-bytes", "header on disk after the first Sync is %x, specification encoding is %x", headerBytes, want)}
				}
			} else if !bytes.Equal(headerBytes, now[:hdrLen]) {
				return []Finding{h.finding("header-changed", "header bytes changed after a later Sync")}
			}
			synced = true
			last = now
			// (3) disk == model; second handle == live handle == model
			if f := diskVsModel(c.L, now, h.m, fmt.Sprintf("step %d after Sync", i)); len(f) > 0 {
				return f
			}
			db2, err := openWT(h.path, wt.WithoutFlock(), wt.WithOpenFileFlag(os.O_RDONLY))
			if err != nil {
				return []Finding{h.finding("second-open", "second (read-only, unlocked) Open after Sync failed: %v", err)}
			}
			wins := append([]Window(nil), op.Windows...)
			for a := range c.L.Archives {
				wins = append(wins, Window{ID: a, From: h.now - c.L.Archives[a].Ret(), Until: h.now})
			}
			for _, w := range wins {
				sh, vals := h.m.Fetch(w.ID, w.From, w.Until, h.now)
				r1 := fetchWT(h.db, w.ID, w.From, w.Until, h.now)
				r2 := fetchWT(db2, w.ID, w.From, w.Until, h.now)
				ctx := fmt.Sprintf("step %d after Sync fetch(id=%d from=%d until=%d now=%d)", i, w.ID, w.From, w.Until, h.now)
				if f := compareFetch("C05", ctx+" live handle", r1, sh, vals); len(f) > 0 {
					db2.Close()
					return f
				}
				if f := compareFetch("C05", ctx+" second handle", r2, sh, vals); len(f) > 0 {
					db2.Close()
					return f
				}
			}
			db2.Close()
		case "abandon":
			if !bytes.Equal(now, last) {
				return []Finding{h.finding("bytes-changed-outside-sync", "file bytes changed when the handle was dropped without Sync (first difference at offset %d)", firstDiff(now, last))}
			}
			writesSinceSync = 0
			touched = map[int64]bool{}
			if synced {
				// the fresh handle must see exactly the last synced state
				raw, f := h.rawState()
				if len(f) > 0 {
					return f
				}
				if f := h.compareRawToModel(raw, h.m, -1); len(f) > 0 {
					for k := range f {
						f[k].Key = "abandon-" + f[k].Key
					}
					return f
				}
			}
		default:
			// (2) any non-Sync operation leaves the bytes alone
			if !bytes.Equal(now, last) {
				return []Finding{h.finding("bytes-changed-outside-sync", "file bytes changed during %q (first difference at offset %d); only Sync may write", op.Kind, firstDiff(now, last))}
			}
			if op.Kind == "update" || op.Kind == "batch" {
				writesSinceSync++
				// pages a write of this op dirties (model-side estimate for the class histogram)
				for _, p := range op.Points {
					touched[p.T/341] = true
				}
				touched[op.T/341] = true
			}
		}
		// (4) crash point: the disk holds precisely the last synced state
		if synced {
			if f := diskVsModel(c.L, now, h.synced, fmt.Sprintf("step %d (%s) crash point", i, op.Kind)); len(f) > 0 {
				return f
			}
		}
	}
	pages := (size + 4095) / 4096
	nontrivial := syncsWithWrites >= 2 && pendingAtAbandon > 0
	cls := []string{}
	if pages > 1 {
		cls = append(cls, "multi-page-file")
	}
	if pages > 8 {
		cls = append(cls, "file>8-pages")
	}
	if syncsWithWrites >= 2 {
		cls = append(cls, "syncs-with-writes>=2")
	}
	if pendingAtAbandon > 0 {
		cls = append(cls, "abandon-with-unsynced-writes")
	}
	if h.facts["abandon"] > 0 {
		cls = append(cls, "abandon")
	}
	off := int64(hdrLen)
	for _, a := range c.L.Archives {
		for j := int64(0); j < a.Points; j++ {
			o := off + 12*j
			if o/4096 != (o+11)/4096 {
				cls = append(cls, "slot-straddles-page")
				j = a.Points
			}
		}
		off += 12 * a.Points
	}
	ev.Count(HashJSON(c), nontrivial, cls...)
	if nontrivial && ev.WantSample() && len(c.Ops) < 12 {
		ev.Sample(c)
	}
	return nil
}

func firstDiff(a, b []byte) int {
	for i := range a {
		if i >= len(b) || a[i] != b[i] {
			return i
		}
	}
	return len(a)
}

func TestC05(t *testing.T) {
	RunProperty(t, Property[HistCase]{
		ID: "C05",
		Rule: "rapid-generated histories (<=40 ops: writes, clock advances, Sync, Sync+reopen, abandon = drop the handle without Sync) on layouts weighted towards multi-page files (archives of 340-3000 slots so that 12-byte slots straddle 4 KiB pages); after EVERY op the file is re-read with os.ReadFile: length fixed, bytes unchanged unless the op was a Sync, and the bytes decoded by the independent parser equal the model state as of the last Sync (every op boundary is a crash point); after each Sync the disk, a second read-only handle and the live handle agree with the model on every archive's full window and 2 generated windows, and the header bytes equal the specification encoding and never change. Non-trivial: >=2 Syncs that flushed writes and >=1 abandonment with unsynced writes pending. Distinct = hash of the case.",
		Assumptions: []string{"the kernel page cache stands in for the disk; a crash during Sync is outside the property", "zone Z7 clocks"},
		Gen: func(t *rapid.T) HistCase {
			o := defaultLayoutOpts()
			l := genLayout(t, o)
			if rapid.IntRange(0, 2).Draw(t, "forceBig") > 0 {
				// force one archive across several pages
				i := rapid.IntRange(0, len(l.Archives)-1).Draw(t, "bigArch")
				extra := rapid.Int64Range(340, 3000).Draw(t, "bigExtra")
				for j := i; j < len(l.Archives); j++ {
					l.Archives[j].Points += extra
					if j+1 < len(l.Archives) {
						// keep the next retention strictly longer
						extra = floorDiv(l.Archives[j].Ret(), l.Archives[j+1].Step) + 1 - l.Archives[j+1].Points
						if extra < 0 {
							extra = 0
						}
					}
				}
			}
			return genHistory(t, l, histGenOpts{MaxOps: 40, FuturePct: 2, StaleNamed: true, Windows: 2, Reopen: true, Abandon: true, SyncHeavy: true})
		},
		Run: runC05,
	})
}
