package props

import (
	"bytes"
	"encoding/binary"
	"fmt"
	"os"
	"path/filepath"
	"syscall"
	"testing"

	"github.com/hnakamur/whispertool/cmd"

	wt "github.com/hnakamur/whispertool"
	"pgregory.net/rapid"
)

// C05 - Sync persistence. Invariants over the history, observed through os.ReadFile and the
// independent parser (never through the live handle):
//
//	(1) the file length is fixed at creation;
//	(2) bytes on disk change only during Sync;
//	(3) after a Sync, the disk (independent parser), a second read-only handle and the live handle
//	    agree with the model for every archive and generated window; header bytes never change
//	    after the first Sync;
//	(4) at every operation boundary the disk holds exactly the model state as of the last Sync
//	    (= what a process that dies there leaves behind); "abandon" ops also drop the handle for
//	    real and continue on a fresh one.
func diskVsModel(l Layout, b []byte, m *Model, where string) []Finding {
	f, err := ParseWsp(b)
	if err != nil {
		return []Finding{{Property: "C05", Key: "disk-unparsable", Detail: fmt.Sprintf("%s: file on disk is not a well-formed whisper file: %v", where, err)}}
	}
	if len(f.H.Archives) != len(l.Archives) {
		return []Finding{{Property: "C05", Key: "disk-header", Detail: fmt.Sprintf("%s: %d archives on disk, layout has %d", where, len(f.H.Archives), len(l.Archives))}}
	}
	for a, slots := range f.Slots {
		ar := l.Archives[a]
		n := 0
		for j, s := range slots {
			if s.Interval == 0 {
				continue
			}
			n++
			ms, ok := m.Rings[a][emod(floorDiv(int64(s.Interval), ar.Step), ar.Points)]
			if !ok || ms.interval != int64(s.Interval) || !sameF(ms.value, s.Value) {
				return []Finding{{Property: "C05", Key: "disk-differs", Detail: fmt.Sprintf("%s: archive %d slot %d on disk holds (%d, %s); the last synced state has (%d, %s) present=%v", where, a, j, s.Interval, fstr(s.Value), ms.interval, fstr(ms.value), ok)}}
			}
		}
		if n != len(m.Rings[a]) {
			return []Finding{{Property: "C05", Key: "disk-missing", Detail: fmt.Sprintf("%s: archive %d has %d stored slots on disk, the last synced state has %d", where, a, n, len(m.Rings[a]))}}
		}
	}
	return nil
}

func runC05History(c HistCase, ev *Evid, tail *F64, closedTail *F64) (fs []Finding) {
	h, err := newHistRunner("C05", c.L, c.Now)
	if err != nil {
		return []Finding{{Property: "C05", Key: "create-error", Detail: fmt.Sprintf("Create(%s): %v", c.L, err)}}
	}
	defer h.close()
	size := c.L.FileSize()
	last, err := os.ReadFile(h.path)
	if err != nil || int64(len(last)) != size {
		return []Finding{{Property: "C05", Key: "create-length", Detail: fmt.Sprintf("after Create the file has %d bytes (err %v), header + 12 x points = %d", len(last), err, size)}}
	}
	var headerBytes []byte
	synced := false
	pendingAtAbandon, syncsWithWrites, dirtyPagesMax := 0, 0, 0
	writesSinceSync := 0
	touched := map[int64]bool{}
	hdrLen := 16 + 12*len(c.L.Archives)
	for i, op := range c.Ops {
		h.step = i
		if op.Kind == "abandon" && writesSinceSync > 0 {
			pendingAtAbandon++
		}
		if f := h.apply(op); len(f) > 0 {
			return f
		}
		if h.m.Stats.Z1 {
			ev.Class("float32-xff-boundary-met")
		}
		if h.db == nil {
			break
		}
		now, err := os.ReadFile(h.path)
		if err != nil {
			return []Finding{h.finding("disk-read", "%v", err)}
		}
		if int64(len(now)) != size {
			return []Finding{h.finding("length-changed", "file length became %d after %s, it was fixed at %d", len(now), op.Kind, size)}
		}
		kind := op.Kind
		if kind == "create-again" && op.ID == 1 {
			kind = "reopen" // (the in-place re-create Syncs first: the disk now holds the handle's state)
		}
		switch kind {
		case "sync", "reopen":
			if writesSinceSync > 0 {
				syncsWithWrites++
			}
			writesSinceSync = 0
			if len(touched) > dirtyPagesMax {
				dirtyPagesMax = len(touched)
			}
			touched = map[int64]bool{}
			if headerBytes == nil {
				headerBytes = append([]byte(nil), now[:hdrLen]...)
				if want := EncodeLayoutHeader(c.L); !bytes.Equal(headerBytes, want) {
					return []Finding{h.finding("header-bytes", "header on disk after the first Sync is %x, specification encoding is %x", headerBytes, want)}
				}
			} else if !bytes.Equal(headerBytes, now[:hdrLen]) {
				return []Finding{h.finding("header-changed", "header bytes changed after a later Sync")}
			}
			synced = true
			last = now
			// (3) disk == model; second handle == live handle == model
			if f := diskVsModel(c.L, now, h.m, fmt.Sprintf("step %d after Sync", i)); len(f) > 0 {
				return f
			}
			db2, err := openWT(h.path, wt.WithoutFlock(), wt.WithOpenFileFlag(os.O_RDONLY))
			if err != nil {
				return []Finding{h.finding("second-open", "second (read-only, unlocked) Open after Sync failed: %v", err)}
			}
			wins := append([]Window(nil), op.Windows...)
			for a := range c.L.Archives {
				wins = append(wins, Window{ID: a, From: h.now - c.L.Archives[a].Ret(), Until: h.now})
			}
			for _, w := range wins {
				sh, vals := h.m.Fetch(w.ID, w.From, w.Until, h.now)
				r1 := fetchWT(h.db, w.ID, w.From, w.Until, h.now)
				r2 := fetchWT(db2, w.ID, w.From, w.Until, h.now)
				ctx := fmt.Sprintf("step %d after Sync fetch(id=%d from=%d until=%d now=%d)", i, w.ID, w.From, w.Until, h.now)
				if f := compareFetch("C05", ctx+" live handle", r1, sh, vals); len(f) > 0 {
					db2.Close()
					return f
				}
				if f := compareFetch("C05", ctx+" second handle", r2, sh, vals); len(f) > 0 {
					db2.Close()
					return f
				}
			}
			db2.Close()
		case "abandon":
			if !bytes.Equal(now, last) {
				return []Finding{h.finding("bytes-changed-outside-sync", "file bytes changed when the handle was dropped without Sync (first difference at offset %d)", firstDiff(now, last))}
			}
			writesSinceSync = 0
			touched = map[int64]bool{}
			if synced {
				// the fresh handle must see exactly the last synced state
				raw, f := h.rawState()
				if len(f) > 0 {
					return f
				}
				if f := h.compareRawToModel(raw, h.m, -1); len(f) > 0 {
					for k := range f {
						f[k].Key = "abandon-" + f[k].Key
					}
					return f
				}
			}
		default:
			// (2) any non-Sync operation leaves the bytes alone
			if !bytes.Equal(now, last) {
				return []Finding{h.finding("bytes-changed-outside-sync", "file bytes changed during %q (first difference at offset %d); only Sync may write", op.Kind, firstDiff(now, last))}
			}
			if op.Kind == "update" || op.Kind == "batch" {
				writesSinceSync++
				// pages a write of this op dirties (model-side estimate for the class histogram)
				for _, p := range op.Points {
					touched[p.T/341] = true
				}
				touched[op.T/341] = true
			}
		}
		// (4) crash point: the disk holds precisely the last synced state
		if synced {
			if f := diskVsModel(c.L, now, h.synced, fmt.Sprintf("step %d (%s) crash point", i, op.Kind)); len(f) > 0 {
				return f
			}
		}
	}
	cls := []string{}
	if tail != nil && h.db != nil {
		// "After Sync returns successfully the file on disk holds exactly the handle's state" - also for a handle
		// on a file the process may read but not write. Whether such an Open succeeds is not asserted; IF it does
		// and an update + Sync on it report success, the value must be on disk.
		if err := h.db.Sync(); err != nil {
			return []Finding{h.finding("sync-error", "final Sync: %v", err)}
		}
		h.db.Close()
		h.db = nil
		before, _ := os.ReadFile(h.path)
		os.Chmod(filepath.Dir(h.path), 0755)
		os.Chmod(h.path, 0444)
		asNobody := syscall.Seteuid(65534) == nil
		var db *wt.Whisper
		var oerr, uerr, serr error
		var pm string
		if asNobody {
			db, oerr = openWT(h.path)
			if oerr == nil {
				uerr, pm = updateWT(db, -1, h.now, float64(*tail), h.now)
				if uerr == nil && pm == "" {
					pm = guard(func() { serr = db.Sync() })
				}
				guard(func() { db.Close() })
			}
			syscall.Seteuid(0)
		}
		os.Chmod(h.path, 0644)
		switch {
		case !asNobody:
			cls = append(cls, "unwritable-tail:cannot-drop-privileges")
		case pm != "":
			return []Finding{h.finding("unwritable-panic", "update / Sync on a handle opened on a read-only file panicked: %s", pm)}
		case oerr != nil:
			cls = append(cls, "unwritable-tail:open-refused")
		case uerr != nil || serr != nil:
			cls = append(cls, "unwritable-tail:write-refused")
		default:
			after, _ := os.ReadFile(h.path)
			step0 := c.L.Archives[0].Step
			iv := alignDown(h.now, step0)
			r, err := readArchives(h.path, c.L, iv-step0, iv, h.now) // the window whose first slot is the written interval (C04)
			if err != nil || r[0].Err != nil || r[0].Nil || len(r[0].S.Values) < 1 || r[0].S.From != iv || !sameF(r[0].S.Values[0], float64(*tail)) {
				return []Finding{h.finding("sync-succeeded-but-not-on-disk", "a handle opened by an unprivileged user on a mode-0444 file accepted an update (t=%d v=%s) and its Sync returned nil, but another handle does not read the value back (file bytes changed: %v)", h.now, fstr(float64(*tail)), !bytes.Equal(before, after))}
			}
			cls = append(cls, "unwritable-tail:written")
		}
	}
	if closedTail != nil && tail == nil && h.db != nil {
		if err := h.db.Sync(); err != nil {
			return []Finding{h.finding("sync-error", "final Sync: %v", err)}
		}
		db := h.db
		db.Close()
		h.db = nil
		var uerr, serr error
		uerr, pm := updateWT(db, -1, h.now, float64(*closedTail), h.now)
		if uerr == nil && pm == "" {
			pm = guard(func() { serr = db.Sync() })
		}
		switch {
		case pm != "":
			cls = append(cls, "closed-tail:panics") // (use after Close: not asserted)
		case uerr != nil || serr != nil:
			cls = append(cls, "closed-tail:refused")
		default:
			step0 := c.L.Archives[0].Step
			iv := alignDown(h.now, step0)
			r, err := readArchives(h.path, c.L, iv-step0, iv, h.now)
			if err != nil || r[0].Err != nil || r[0].Nil || len(r[0].S.Values) < 1 || r[0].S.From != iv || !sameF(r[0].S.Values[0], float64(*closedTail)) {
				return []Finding{h.finding("sync-succeeded-but-not-on-disk", "after Close the handle accepted an update (t=%d v=%s) and its Sync returned nil, but another handle does not read the value back", h.now, fstr(float64(*closedTail)))}
			}
			cls = append(cls, "closed-tail:written")
		}
	}
	pages := (size + 4095) / 4096
	nontrivial := syncsWithWrites >= 2 && pendingAtAbandon > 0
	if pages > 1 {
		cls = append(cls, "multi-page-file")
	}
	if pages > 8 {
		cls = append(cls, "file>8-pages")
	}
	if syncsWithWrites >= 2 {
		cls = append(cls, "syncs-with-writes>=2")
	}
	if pendingAtAbandon > 0 {
		cls = append(cls, "abandon-with-unsynced-writes")
	}
	if h.facts["abandon"] > 0 {
		cls = append(cls, "abandon")
	}
	off := int64(hdrLen)
	for _, a := range c.L.Archives {
		for j := int64(0); j < a.Points; j++ {
			o := off + 12*j
			if o/4096 != (o+11)/4096 {
				cls = append(cls, "slot-straddles-page")
				j = a.Points
			}
		}
		off += 12 * a.Points
	}
	ev.Count(HashJSON(c), nontrivial, cls...)
	if nontrivial && ev.WantSample() && len(c.Ops) < 12 {
		ev.Sample(c)
	}
	return nil
}

func maxI64(a, b int64) int64 {
	if a > b {
		return a
	}
	return b
}

func firstDiff(a, b []byte) int {
	for i := range a {
		if i >= len(b) || a[i] != b[i] {
			return i
		}
	}
	return len(a)
}

// C05Case is either a library history or a failing CLI write (the property's last clause).
type C05Case struct {
	Kind string    `json:"kind"` // history | cli | partial | oddfile
	O    *C05Odd   `json:"oddfile,omitempty"`
	H    *HistCase `json:"history,omitempty"`
	// UnwritableTail (history): after the history the file is made read-only and opened by an unprivileged
	// user; if that Open succeeds, one more write + Sync follows (see runC05History)
	UnwritableTail *F64 `json:"unwritable_tail,omitempty"`
	// ClosedTail (history): after the history the handle is closed and then used again: update + Sync. Whether
	// those calls are refused is not asserted; IF both report success the value must be on disk
	ClosedTail *F64        `json:"closed_tail,omitempty"`
	CLI        *C05CLI     `json:"cli,omitempty"`
	P          *C05Partial `json:"partial,omitempty"`
}

// C05Partial: updates that fail half way (a coarser archive's base interval is damaged on disk, so
// propagation errors after the finer slot was stored), then Sync: whatever state the live handle
// shows must be what a second handle reads from disk.
type C05Partial struct {
	L          Layout      `json:"layout"`
	Now        int64       `json:"now"`
	Pre        []SlotWrite `json:"pre"`
	DamageArch int         `json:"damage_arch"` // >= 1
	DamageBy   int64       `json:"damage_by"`   // added to the stored base interval (unaligned)
	Updates    []SlotWrite `json:"updates"`
	Batch      bool        `json:"batch"`
}

func runC05Partial(c C05Partial, ev *Evid) (fs []Finding) {
	add := func(key, format string, args ...interface{}) {
		fs = append(fs, Finding{Property: "C05", Key: key, Detail: fmt.Sprintf("layout %s now=%d damaged archive %d: ", c.L, c.Now, c.DamageArch) + fmt.Sprintf(format, args...)})
	}
	dir := scratchDir()
	defer os.RemoveAll(dir)
	path := filepath.Join(dir, "f.wsp")
	if err := buildFile(path, FileSpec{L: c.L, Writes: c.Pre}, c.Now); err != nil {
		add("setup", "%v", err)
		return
	}
	b, _ := os.ReadFile(path)
	f, perr := ParseWsp(b)
	if perr != nil {
		add("setup", "%v", perr)
		return
	}
	ar := f.H.Archives[c.DamageArch]
	base := f.Slots[c.DamageArch][0].Interval
	if base == 0 {
		ev.Discard("coarser-archive-empty")
		return nil
	}
	fh, err := os.OpenFile(path, os.O_WRONLY, 0)
	if err != nil {
		add("setup", "%v", err)
		return
	}
	var w [4]byte
	binary.BigEndian.PutUint32(w[:], uint32(int64(base)+c.DamageBy))
	fh.WriteAt(w[:], int64(ar.Offset))
	fh.Close()
	db, err := openWT(path)
	if err != nil {
		add("setup", "Open of the damaged file: %v", err)
		return
	}
	defer db.Close()
	failed := 0
	if c.Batch {
		var pts []MPoint
		for _, u := range c.Updates {
			pts = append(pts, MPoint{T: u.T, V: u.V})
		}
		if err, pm := batchWT(db, pts, 0, c.Now); pm != "" {
			add("panic", "batch update panicked: %s", pm)
			return
		} else if err != nil {
			failed++
		}
	} else {
		for _, u := range c.Updates {
			err, pm := updateWT(db, u.Arch, u.T, float64(u.V), c.Now)
			if pm != "" {
				add("panic", "update panicked: %s", pm)
				return
			}
			if err != nil {
				failed++
			}
		}
	}
	if err := db.Sync(); err != nil {
		add("sync-error", "%v", err)
		return
	}
	db2, err := openWT(path, wt.WithoutFlock(), wt.WithOpenFileFlag(os.O_RDONLY))
	if err != nil {
		add("second-open", "%v", err)
		return
	}
	defer db2.Close()
	for a := range c.L.Archives {
		r1 := fetchWT(db, a, c.Now-c.L.Archives[a].Ret(), c.Now, c.Now)
		r2 := fetchWT(db2, a, c.Now-c.L.Archives[a].Ret(), c.Now, c.Now)
		if (r1.Err != nil) != (r2.Err != nil) || r1.Nil != r2.Nil || len(r1.S.Values) != len(r2.S.Values) {
			add("handles-disagree", "archive %d: live handle (err=%v, %d values) vs second handle after Sync (err=%v, %d values); %d updates had failed", a, r1.Err, len(r1.S.Values), r2.Err, len(r2.S.Values), failed)
			return
		}
		for k := range r1.S.Values {
			if !sameF(r1.S.Values[k], r2.S.Values[k]) {
				add("handles-disagree", "archive %d slot t=%d: the live handle shows %s, a second handle opened after a successful Sync shows %s (%d updates had failed half way)", a, r1.S.From+int64(k)*r1.S.Step, fstr(r1.S.Values[k]), fstr(r2.S.Values[k]), failed)
				return
			}
		}
	}
	cls := []string{"partial-update"}
	if failed > 0 {
		cls = append(cls, "update-failed-half-way")
	}
	ev.Count(HashJSON(c), failed > 0, cls...)
	return nil
}

// C05CLI: a copy / sum-copy onto an existing destination that is made to fail.
type C05CLI struct {
	Now   int64      `json:"now"`
	Cmd   string     `json:"cmd"` // copy | sum-copy
	Src   []TreeFile `json:"src"`
	Dest  FileSpec   `json:"dest"`  // the existing destination (its layout may differ from the source's)
	Fault string     `json:"fault"` // layout-mismatch | corrupt-src | devfull | second-file-mismatch | dest-damaged-coarser
	// ArchiveID: -1 all; dest-damaged-coarser selects an archive finer than the damaged one
	ArchiveID  int    `json:"archive_id"`
	DamageArch int    `json:"damage_arch,omitempty"`
	Corrupt    []byte `json:"corrupt,omitempty"`
	From       int64  `json:"from"`
	Until      int64  `json:"until"`
	CopyNaN    bool   `json:"copy_nan"`
}

// C05Odd: an EXISTING file that is valid but not exactly what Create would have written - bytes after the last
// archive (a file extended by another tool), a max-retention field that disagrees with the archive list - is
// opened, read, possibly updated and Synced: its length and header bytes never change, and nothing at all
// changes without an update.
type C05Odd struct {
	L        Layout      `json:"layout"`
	Now      int64       `json:"now"`
	Pre      []SlotWrite `json:"pre"`
	Trailing int         `json:"trailing,omitempty"`      // bytes appended after the last archive
	MaxRet   int64       `json:"max_ret_delta,omitempty"` // added to the header's max-retention field
	Updates  []SlotWrite `json:"updates,omitempty"`
	Sync     bool        `json:"sync"`
	// Method2 != 0: the file is not opened but created again in place with this method and XFF2 (runC05Recreate)
	Method2 int     `json:"method2,omitempty"`
	XFF2    float32 `json:"xff2,omitempty"`
}

// runC05Recreate (C05Odd with Method2 set): a populated, synced file is created again IN PLACE (flag O_RDWR, as a
// caller re-initialising a metric does) with the same archives but another aggregation method and / or
// xFilesFactor; after an update and a Sync through that handle the file holds the handle's state - its header
// included: the bytes on disk are the new header's, and another handle reports the new method and factor.
func runC05Recreate(c C05Odd, ev *Evid) (fs []Finding) {
	add := func(key, format string, args ...interface{}) {
		fs = append(fs, Finding{Property: "C05", Key: key, Detail: fmt.Sprintf("re-create in place %s -> method %d xff %v at now=%d: ", c.L, c.Method2, c.XFF2, c.Now) + fmt.Sprintf(format, args...)})
	}
	dir := scratchDir()
	defer os.RemoveAll(dir)
	path := filepath.Join(dir, "f.wsp")
	if err := buildFile(path, FileSpec{L: c.L, Writes: c.Pre}, c.Now); err != nil {
		add("setup", "%v", err)
		return
	}
	l2 := Layout{Archives: c.L.Archives, Method: c.Method2, XFF: c.XFF2}
	db, err := createWT(path, l2, wt.WithOpenFileFlag(os.O_RDWR))
	if err != nil {
		add("recreate-fails", "Create with flag O_RDWR over the existing file failed: %v", err)
		return
	}
	for _, w := range c.Updates {
		if e, pm := updateWT(db, w.Arch, w.T, float64(w.V), c.Now); pm != "" {
			db.Close()
			add("update-panic", "%s", pm)
			return
		} else if e != nil {
			db.Close()
			add("setup", "update: %v", e)
			return
		}
	}
	if err := db.Sync(); err != nil {
		db.Close()
		add("sync-error", "%v", err)
		return
	}
	b, _ := os.ReadFile(path)
	want := EncodeLayoutHeader(l2)
	if len(b) < len(want) || !bytes.Equal(b[:len(want)], want) {
		db.Close()
		add("header-not-the-handles", "after a successful Sync the header on disk is %x, the handle's header encodes as %x", b[:minInt(len(b), len(want))], want)
		return
	}
	db2, err := openWT(path, wt.WithoutFlock(), wt.WithOpenFileFlag(os.O_RDONLY))
	if err != nil {
		db.Close()
		add("second-open", "%v", err)
		return
	}
	if int(db2.AggregationMethod()) != c.Method2 || db2.XFilesFactor() != c.XFF2 {
		add("header-not-the-handles", "another handle opened after the Sync reports method %d xff %v", db2.AggregationMethod(), db2.XFilesFactor())
	}
	db2.Close()
	db.Close()
	ev.Count(HashJSON(c), true, "kind=recreate-in-place")
	return
}

func runC05Odd(c C05Odd, ev *Evid) (fs []Finding) {
	if c.Method2 != 0 {
		return runC05Recreate(c, ev)
	}
	add := func(key, format string, args ...interface{}) {
		fs = append(fs, Finding{Property: "C05", Key: key, Detail: fmt.Sprintf("existing file (%s, %d trailing bytes, max-retention field %+d): ", c.L, c.Trailing, c.MaxRet) + fmt.Sprintf(format, args...)})
	}
	dir := scratchDir()
	defer os.RemoveAll(dir)
	path := filepath.Join(dir, "f.wsp")
	if err := buildFile(path, FileSpec{L: c.L, Writes: c.Pre}, c.Now); err != nil {
		add("setup", "%v", err)
		return
	}
	b, _ := os.ReadFile(path)
	if c.MaxRet != 0 {
		binary.BigEndian.PutUint32(b[4:], uint32(int64(binary.BigEndian.Uint32(b[4:]))+c.MaxRet))
	}
	for i := 0; i < c.Trailing; i++ {
		b = append(b, byte(0xE0+i%16))
	}
	os.WriteFile(path, b, 0644)
	before := b
	hdrLen := 16 + 12*len(c.L.Archives)
	db, err := openWT(path)
	if err != nil {
		ev.Count(HashJSON(c), false, "kind=oddfile", "open-refused")
		return nil
	}
	for a := range c.L.Archives {
		fetchWT(db, a, 0, c.Now, c.Now)
	}
	if cur, _ := os.ReadFile(path); !bytes.Equal(cur, before) {
		db.Close()
		add("bytes-changed-outside-sync", "opening and reading the file changed it on disk (length %d -> %d, first difference at offset %d); only Sync may write", len(before), len(cur), firstDiff(cur, before))
		return
	}
	wrote := 0
	for _, u := range c.Updates {
		if e, pm := updateWT(db, u.Arch, u.T, float64(u.V), c.Now); e == nil && pm == "" {
			wrote++
		}
	}
	if c.Sync {
		db.Sync()
	}
	db.Close()
	after, _ := os.ReadFile(path)
	switch {
	case len(after) != len(before):
		add("length-changed", "the file's length changed from %d to %d (updates applied: %d, Sync: %v)", len(before), len(after), wrote, c.Sync)
	case !bytes.Equal(after[:hdrLen], before[:hdrLen]):
		add("header-changed", "the header bytes changed: %x -> %x (updates applied: %d, Sync: %v)", before[:hdrLen], after[:hdrLen], wrote, c.Sync)
	case (wrote == 0 || !c.Sync) && !bytes.Equal(after, before):
		add("bytes-changed-outside-sync", "the file changed although nothing was written and synced (updates applied: %d, Sync: %v; first difference at offset %d)", wrote, c.Sync, firstDiff(after, before))
	}
	if len(fs) > 0 {
		return
	}
	ev.Count(HashJSON(c), true, "kind=oddfile", fmt.Sprintf("trailing=%v", c.Trailing > 0), fmt.Sprintf("max-ret-field-off=%v", c.MaxRet != 0))
	return nil
}

func runC05(c C05Case, ev *Evid) []Finding {
	if c.Kind == "oddfile" {
		return runC05Odd(*c.O, ev)
	}
	if c.Kind == "cli" {
		return runC05CLI(*c.CLI, ev)
	}
	if c.Kind == "partial" {
		return runC05Partial(*c.P, ev)
	}
	return runC05History(*c.H, ev, c.UnwritableTail, c.ClosedTail)
}

func runC05CLI(c C05CLI, ev *Evid) (fs []Finding) {
	add := func(key, format string, args ...interface{}) {
		fs = append(fs, Finding{Property: "C05", Key: key, Detail: fmt.Sprintf("%s fault=%s now=%d from=%d until=%d: ", c.Cmd, c.Fault, c.Now, c.From, c.Until) + fmt.Sprintf(format, args...)})
	}
	dir := scratchDir()
	defer os.RemoveAll(dir)
	srcBase := filepath.Join(dir, "src")
	if err := buildTree(srcBase, c.Src, c.Now); err != nil {
		add("setup", "%v", err)
		return
	}
	l := c.Src[0].Spec.L
	first := c.Src[0]
	if c.Fault == "corrupt-src" {
		os.WriteFile(filepath.Join(srcBase, first.Dir, first.Name), c.Corrupt, 0644)
	}
	// two identical destination trees: the faulty run and a fault-free twin
	destRel := filepath.Join(first.Dir, first.Name)
	if c.Cmd == "sum-copy" {
		destRel = filepath.Join(first.Dir, "sum.wsp")
	}
	mkDest := func(tag string) (string, error) {
		base := filepath.Join(dir, "dest-"+tag)
		if err := buildFile(filepath.Join(base, destRel), c.Dest, c.Now); err != nil {
			return base, err
		}
		if c.Fault == "dest-damaged-coarser" {
			// the base interval of a coarser archive of the destination is knocked off its step grid: an update of
			// a finer archive stores its slots and then fails while propagating
			p := filepath.Join(base, destRel)
			b, _ := os.ReadFile(p)
			if f, err := ParseWsp(b); err == nil && c.DamageArch < len(f.H.Archives) {
				ar := f.H.Archives[c.DamageArch]
				iv := f.Slots[c.DamageArch][0].Interval
				if iv == 0 {
					iv = uint32(alignDown(c.Now, int64(ar.Step)))
				}
				binary.BigEndian.PutUint32(b[ar.Offset:], iv+1)
				os.WriteFile(p, b, 0644)
			}
		}
		if c.Fault == "second-file-mismatch" && len(c.Src) > 1 {
			// the first matched file has a regular destination, the second one the mismatching layout
			second := c.Src[1]
			if err := buildFile(filepath.Join(base, second.Dir, second.Name), c.Dest, c.Now); err != nil {
				return base, err
			}
			if err := buildFile(filepath.Join(base, destRel), FileSpec{L: l}, c.Now); err != nil && !os.IsExist(err) {
				os.Remove(filepath.Join(base, destRel))
				if err := buildFile(filepath.Join(base, destRel), FileSpec{L: l}, c.Now); err != nil {
					return base, err
				}
			}
		}
		return base, nil
	}
	run := func(destBase, textOut string) (error, string) {
		var cc cmd.Command
		if c.Cmd == "copy" {
			rel := first.Dir + "/" + first.Name
			if c.Fault == "second-file-mismatch" {
				rel = first.Dir + "/*.wsp"
			}
			cc = &cmd.CopyCommand{SrcBase: srcBase, SrcRelPath: rel, DestBase: destBase, AggregationMethod: wt.AggregationMethod(l.Method), XFilesFactor: l.XFF, ArchiveInfoList: wtArchives(l),
				From: wt.Timestamp(c.From), Until: wt.Timestamp(c.Until), ArchiveID: c.ArchiveID, CopyNaN: c.CopyNaN, TextOut: textOut}
		} else {
			cc = &cmd.SumCopyCommand{SrcBase: srcBase, DestBase: destBase, ItemPattern: first.Dir, SrcPattern: "*.wsp", DestRelPath: "sum.wsp", AggregationMethod: wt.AggregationMethod(l.Method), XFilesFactor: l.XFF, ArchiveInfoList: wtArchives(l),
				From: wt.Timestamp(c.From), Until: wt.Timestamp(c.Until), ArchiveID: c.ArchiveID, TextOut: textOut}
		}
		return runCommand(c.Now, cc)
	}
	faultBase, err := mkDest("fault")
	if err != nil {
		add("setup", "%v", err)
		return
	}
	twinBase, err := mkDest("twin")
	if err != nil {
		add("setup", "%v", err)
		return
	}
	before := snapshotTree(faultBase)
	textOut := filepath.Join(dir, "out.txt")
	if c.Fault == "devfull" {
		textOut = "/dev/full"
	}
	ferr, pm := run(faultBase, textOut)
	if pm != "" {
		add("panic", "%s", pm)
		return
	}
	after := snapshotTree(faultBase)
	if ferr == nil {
		// nothing failed (e.g. nothing to print on /dev/full): not a case of this clause
		ev.Count(HashJSON(c), false, "cli", "cli-did-not-fail", "fault="+c.Fault)
		return nil
	}
	// what a successful run would have produced (fault-free twin)
	_, _ = run(twinBase, filepath.Join(dir, "twin.txt"))
	twin := snapshotTree(twinBase)
	twinOut := 0
	if st, err := os.Stat(filepath.Join(dir, "twin.txt")); err == nil {
		twinOut = int(st.Size())
	}
	changed := 0
	for rel, b := range before {
		a := after[rel]
		if a == b {
			continue
		}
		changed++
		// a destination may only differ if the command completed its work for that file (final Sync done):
		// then it must equal what the fault-free run produces
		// the text writer buffers: a small output fails only when it is flushed after the final Sync (the
		// destination then equals the completed copy); an output far larger than any buffer fails while it
		// is printed, i.e. before the final Sync, and the destination must be untouched
		// (only the text-output fault and the files before the failing one of a glob can legitimately have
		// completed; a mismatching destination or a corrupt source must leave the bytes alone)
		mayHaveCompleted := c.Fault == "devfull" && twinOut < 256<<10
		if c.Fault == "second-file-mismatch" && rel == destRel {
			mayHaveCompleted = true
		}
		if mayHaveCompleted && a == twin[rel] {
			continue
		}
		add("dest-modified-by-failed-write", "the command failed (%v) but destination %s changed (first difference at byte %d) and is not the result of a completed copy", ferr, rel, firstDiff([]byte(a), []byte(b)))
		return
	}
	for rel := range after {
		if _, ok := before[rel]; !ok && after[rel] != twin[rel] {
			add("dest-created-by-failed-write", "the command failed (%v) but created %s", ferr, rel)
			return
		}
	}
	cls := []string{"cli", "fault=" + c.Fault, "cmd=" + c.Cmd}
	if c.Fault == "devfull" && twinOut >= 256<<10 {
		cls = append(cls, "devfull-output>=256KiB")
	}
	if changed > 0 {
		cls = append(cls, "failed-after-final-sync")
	}
	ev.Count(HashJSON(c), true, cls...)
	if ev.WantSample() && len(c.Src) == 1 && len(c.Src[0].Spec.Writes) < 8 {
		ev.Sample(c)
	}
	return nil
}

func genC05CLI(t *rapid.T) C05CLI {
	l := genCLILayout(t)
	now := genNowRealistic(t, l)
	c := C05CLI{Now: now, Cmd: rapid.SampledFrom([]string{"copy", "copy", "sum-copy"}).Draw(t, "cmd")}
	n := rapid.IntRange(1, 3).Draw(t, "files")
	for i := 0; i < n; i++ {
		c.Src = append(c.Src, TreeFile{Dir: "s1", Name: fmt.Sprintf("f%d.wsp", i+1), Spec: FileSpec{L: l, Writes: genWrites(t, l, now, valDyadic, 10)}})
	}
	c.ArchiveID = -1
	c.Fault = rapid.SampledFrom([]string{"layout-mismatch", "corrupt-src", "devfull", "devfull", "second-file-mismatch", "dest-damaged-coarser"}).Draw(t, "fault")
	if c.Fault == "dest-damaged-coarser" {
		if len(l.Archives) < 2 {
			c.Fault = "layout-mismatch"
		} else {
			c.DamageArch = rapid.IntRange(1, len(l.Archives)-1).Draw(t, "damageArch")
			c.ArchiveID = rapid.IntRange(0, c.DamageArch-1).Draw(t, "copyArchive")
		}
	}
	if c.Fault == "second-file-mismatch" && (c.Cmd != "copy" || n < 2) {
		c.Fault = "layout-mismatch"
	}
	c.Dest = FileSpec{L: l, Writes: genWrites(t, l, now, valDyadic, 10)}
	if c.Fault == "layout-mismatch" || c.Fault == "second-file-mismatch" {
		l2 := genCLILayout(t)
		for layoutsEqualArchives(l, l2) {
			l2.Archives[0].Points++
			if len(l2.Archives) > 1 {
				l2 = Layout{Archives: l2.Archives[:1], Method: l2.Method, XFF: l2.XFF}
			}
		}
		c.Dest = FileSpec{L: l2, Writes: genWrites(t, l2, now, valDyadic, 10)}
	}
	if c.Fault == "corrupt-src" {
		c.Corrupt = rapid.SliceOfN(rapid.Byte(), 0, 60).Draw(t, "garbage")
	}
	if c.Fault == "devfull" && rapid.IntRange(0, 2).Draw(t, "hugeOutput") == 0 {
		// an archive of thousands of differing slots: hundreds of KiB of text output
		big := Layout{Archives: []Arch{{Step: l.Archives[0].Step, Points: rapid.Int64Range(7000, 9000).Draw(t, "hugePoints")}}, Method: l.Method, XFF: l.XFF}
		if rapid.Bool().Draw(t, "hugeTwoLevel") {
			big.Archives = append(big.Archives, Arch{Step: big.Archives[0].Step * 10, Points: big.Archives[0].Points/10 + 5})
		}
		for i := range c.Src {
			c.Src[i].Spec = FileSpec{L: big, Fill: big.Archives[0].Points, FillBase: F64(float64(i) + 0.5)}
		}
		c.Dest = FileSpec{L: big, Fill: big.Archives[0].Points / 2, FillBase: 1000000.25}
		c.From, c.Until = 0, 0
		c.CopyNaN = rapid.Bool().Draw(t, "copyNaN")
		c.Now = genNowRealistic(t, big)
		return c
	}
	if c.Fault == "devfull" && rapid.Bool().Draw(t, "bigOutput") {
		// many points so that the text output exceeds the writer's buffer and fails before the final Sync
		for i := range c.Src {
			for age := int64(0); age < minI64(l.Archives[0].Ret(), 200); age++ {
				c.Src[i].Spec.Writes = append(c.Src[i].Spec.Writes, SlotWrite{Arch: 0, T: now - age, V: F64(float64(age) + 0.125)})
			}
		}
	}
	if rapid.Bool().Draw(t, "window") {
		c.From, c.Until = genCLIWindow(t, l, now)
	}
	c.CopyNaN = rapid.Bool().Draw(t, "copyNaN")
	return c
}

func TestC05(t *testing.T) {
	RunProperty(t, Property[C05Case]{
		NoteCases:   true,
		ID:          "C05",
		Rule:        "rapid-generated histories (<=40 ops: writes, clock advances, Sync, Sync+reopen, abandon = drop the handle without Sync) on layouts weighted towards multi-page files (archives of 340-3000 slots so that 12-byte slots straddle 4 KiB pages); after EVERY op the file is re-read with os.ReadFile: length fixed, bytes unchanged unless the op was a Sync, and the bytes decoded by the independent parser equal the model state as of the last Sync (every op boundary is a crash point); after each Sync the disk, a second read-only handle and the live handle agree with the model on every archive's full window and 2 generated windows, and the header bytes equal the specification encoding and never change. One case in six is a CLI write (copy / sum-copy at a controlled clock) onto an existing destination that is made to fail - mismatching destination layout, corrupt source, text output on /dev/full, or a glob whose second file mismatches: a destination may differ from its previous bytes only if it equals what a fault-free twin run produces (the command had finished that file's final Sync). One case in twelve damages a coarser archive's base interval on disk so that later updates fail half way (finer slot stored, propagation refused), then Syncs and compares the live handle with a second handle archive by archive. Non-trivial: history cases with >=2 Syncs that flushed writes and >=1 abandonment with unsynced writes pending; CLI cases in which the command failed. Distinct = hash of the case.",
		Assumptions: []string{"the kernel page cache stands in for the disk; a crash during Sync is outside the property", "zone Z7 clocks"},
		Gen: func(t *rapid.T) C05Case {
			if rapid.IntRange(0, 5).Draw(t, "cli") == 0 {
				c := genC05CLI(t)
				return C05Case{Kind: "cli", CLI: &c}
			}
			if rapid.IntRange(0, 11).Draw(t, "partial") == 0 {
				o := defaultLayoutOpts()
				o.MinArchives, o.AllowMultiPage = 2, false
				l := genLayout(t, o)
				now := genNowRealistic(t, l)
				p := C05Partial{L: l, Now: now, DamageArch: rapid.IntRange(1, len(l.Archives)-1).Draw(t, "damageArch"), Batch: rapid.Bool().Draw(t, "batch")}
				p.DamageBy = rapid.Int64Range(1, maxI64(1, l.Archives[p.DamageArch].Step-1)).Draw(t, "damageBy")
				// make sure every archive has data (a write to archive 0 propagates when xff allows; write coarser ones by name too)
				for a := range l.Archives {
					p.Pre = append(p.Pre, SlotWrite{Arch: a, T: now - rapid.Int64Range(0, minI64(l.Archives[a].Ret(), l.MaxRet())-1).Draw(t, "preAge"), V: F64(genValue(t))})
				}
				n := rapid.IntRange(1, 4).Draw(t, "updates")
				for i := 0; i < n; i++ {
					a := 0
					if !p.Batch {
						a = rapid.IntRange(0, p.DamageArch-1).Draw(t, "updArch")
					}
					p.Updates = append(p.Updates, SlotWrite{Arch: a, T: now - rapid.Int64Range(0, l.Archives[a].Ret()-1).Draw(t, "updAge"), V: F64(genValue(t))})
				}
				return C05Case{Kind: "partial", P: &p}
			}
			if rapid.IntRange(0, 8).Draw(t, "oddFile") == 0 {
				lo := defaultLayoutOpts()
				l := genLayout(t, lo)
				now := genNow(t, l)
				od := C05Odd{L: l, Now: now, Pre: genWrites(t, l, now, valGeneral, 0), Sync: rapid.IntRange(0, 3).Draw(t, "oddSync") > 0}
				switch rapid.IntRange(0, 3).Draw(t, "oddKind") {
				case 3:
					od.Method2 = rapid.IntRange(1, 6).Draw(t, "method2")
					od.XFF2 = l.XFF
					if od.Method2 == l.Method || rapid.Bool().Draw(t, "xffToo") {
						od.XFF2 = rapid.SampledFrom([]float32{0, 0.25, 0.5, 1}).Draw(t, "xff2")
						if od.XFF2 == l.XFF {
							od.XFF2 = 0.75
						}
					}
				case 0:
					od.Trailing = rapid.SampledFrom([]int{1, 11, 12, 100, 4096, 5000}).Draw(t, "trailing")
				case 1:
					od.MaxRet = rapid.SampledFrom([]int64{1, -1, 60, l.MaxRet()}).Draw(t, "maxRetDelta")
				default:
					od.Trailing = rapid.IntRange(1, 300).Draw(t, "trailing2")
					od.MaxRet = rapid.SampledFrom([]int64{1, -1, 3600}).Draw(t, "maxRetDelta2")
				}
				for n := rapid.IntRange(0, 3).Draw(t, "oddUpdates"); n > 0; n-- {
					a := rapid.IntRange(0, len(l.Archives)-1).Draw(t, "oddArch")
					od.Updates = append(od.Updates, SlotWrite{Arch: a, T: now - rapid.Int64Range(0, l.Archives[a].Ret()-1).Draw(t, "oddAge"), V: F64(genValue(t))})
				}
				return C05Case{Kind: "oddfile", O: &od}
			}
			o := defaultLayoutOpts()
			o.HugePct = 6 // archives of 3000-10000 slots, so that one batch can exceed any internal chunk size
			l := genLayout(t, o)
			if rapid.IntRange(0, 2).Draw(t, "forceBig") > 0 {
				// force one archive across several pages
				i := rapid.IntRange(0, len(l.Archives)-1).Draw(t, "bigArch")
				extra := rapid.Int64Range(340, 3000).Draw(t, "bigExtra")
				if (l.Archives[i].Points+extra)*l.Archives[i].Step > 1<<30 {
					extra = 0 // retentions stay below 2^30 (valid layouts, non-empty clock domain)
				}
				for j := i; j < len(l.Archives); j++ {
					l.Archives[j].Points += extra
					if j+1 < len(l.Archives) {
						// keep the next retention strictly longer
						extra = floorDiv(l.Archives[j].Ret(), l.Archives[j+1].Step) + 1 - l.Archives[j+1].Points
						if extra < 0 {
							extra = 0
						}
					}
				}
			}
			ho := histGenOpts{MaxOps: 40, FuturePct: 2, StaleNamed: true, Windows: 2, Reopen: true, Abandon: true, SyncHeavy: true}
			if l.Archives[0].Points > 2000 {
				ho.MaxOps, ho.BigBatches = 8, true
			}
			h := genHistory(t, l, ho)
			cc := C05Case{Kind: "history", H: &h}
			if rapid.IntRange(0, 7).Draw(t, "unwritableTail") == 0 {
				v := F64(genDyadic(t))
				cc.UnwritableTail = &v
			} else if rapid.IntRange(0, 7).Draw(t, "closedTail") == 0 {
				v := F64(genDyadic(t) + 0.5)
				cc.ClosedTail = &v
			}
			return cc
		},
		Run: runC05,
	})
}
