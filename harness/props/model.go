package props

// Reference model of a Whisper file (DESIGN.md §3.1). Written from the property statements
// (C01-C04, C07) in exact int64 arithmetic; shares no code with /repo.

import (
	"fmt"
	"math"
	"sort"
)

// Arch is one archive of a layout.
type Arch struct {
	Step   int64 `json:"step"`
	Points int64 `json:"points"`
}

func (a Arch) Ret() int64 { return a.Step * a.Points }

// Layout is a file layout (plain data).
type Layout struct {
	Archives []Arch  `json:"archives"`
	Method   int     `json:"method"` // 1 average 2 sum 3 last 4 max 5 min 6 first
	XFF      float32 `json:"xff"`
}

func (l Layout) MaxRet() int64 { return l.Archives[len(l.Archives)-1].Ret() }

func (l Layout) String() string {
	s := ""
	for i, a := range l.Archives {
		if i > 0 {
			s += ","
		}
		s += fmt.Sprintf("%ds:%ds", a.Step, a.Ret())
	}
	return fmt.Sprintf("%s m=%d xff=%v", s, l.Method, l.XFF)
}

// FileSize is the exact size of a classic whisper file with this layout.
func (l Layout) FileSize() int64 {
	n := int64(16 + 12*len(l.Archives))
	for _, a := range l.Archives {
		n += 12 * a.Points
	}
	return n
}

func floorDiv(a, b int64) int64 {
	q := a / b
	if (a%b != 0) && ((a < 0) != (b < 0)) {
		q--
	}
	return q
}

func emod(a, b int64) int64 {
	m := a % b
	if m < 0 {
		m += b
	}
	return m
}

func alignDown(t, step int64) int64 { return t - emod(t, step) }

type mslot struct {
	interval int64
	value    float64
}

// Model is the abstract state: per archive a ring keyed by slot class.
type Model struct {
	L     Layout
	Rings []map[int64]mslot
	Stats propStats
}

func NewModel(l Layout) *Model {
	m := &Model{L: l}
	for range l.Archives {
		m.Rings = append(m.Rings, map[int64]mslot{})
	}
	return m
}

func (m *Model) Clone() *Model {
	c := &Model{L: m.L}
	for _, r := range m.Rings {
		n := make(map[int64]mslot, len(r))
		for k, v := range r {
			n[k] = v
		}
		c.Rings = append(c.Rings, n)
	}
	return c
}

func (m *Model) class(a int, interval int64) int64 {
	ar := m.L.Archives[a]
	return emod(floorDiv(interval, ar.Step), ar.Points)
}

func (m *Model) store(a int, t int64, v float64) int64 {
	iv := alignDown(t, m.L.Archives[a].Step)
	m.Rings[a][m.class(a, iv)] = mslot{iv, v}
	return iv
}

// Get returns the value stored for exactly this interval of archive a.
func (m *Model) Get(a int, interval int64) (float64, bool) {
	s, ok := m.Rings[a][m.class(a, interval)]
	if !ok || s.interval != interval {
		return math.NaN(), false
	}
	return s.value, true
}

// MPoint is a (time, value) pair in model space.
type MPoint struct {
	T int64 `json:"t"`
	V F64   `json:"v"`
}

// UpdateSingle models UpdatePointForArchive. ok=false means "must be rejected".
func (m *Model) UpdateSingle(id int, t int64, v float64, now int64) (ok bool, archive int) {
	age := now - t
	if t > now || age >= m.L.MaxRet() {
		return false, -1
	}
	a := id
	if id == -1 {
		a = len(m.L.Archives) - 1
		for i, ar := range m.L.Archives {
			if ar.Ret() >= age {
				a = i
				break
			}
		}
	}
	iv := m.store(a, t, v)
	m.propagate(a, []int64{iv})
	return true, a
}

// RouteBatch says, per point, which archive the statement of C03 sends it to (-1 = dropped).
func (m *Model) RouteBatch(points []MPoint, id int, now int64) []int {
	out := make([]int, len(points))
	for i, p := range points {
		age := now - p.T
		out[i] = -1
		if id >= 0 {
			if age < m.L.Archives[id].Ret() {
				out[i] = id
			}
			continue
		}
		for a, ar := range m.L.Archives {
			if ar.Ret() > age {
				out[i] = a
				break
			}
		}
	}
	return out
}

// UpdateBatch models UpdatePointsForArchive: route, then per archive (finest first) store in
// time order (stable, so equal timestamps resolve to the one supplied last) and propagate.
func (m *Model) UpdateBatch(points []MPoint, id int, now int64) {
	route := m.RouteBatch(points, id, now)
	idx := make([]int, len(points))
	for i := range idx {
		idx[i] = i
	}
	sort.SliceStable(idx, func(i, j int) bool { return points[idx[i]].T < points[idx[j]].T })
	for a := range m.L.Archives {
		var ivs []int64
		for _, i := range idx {
			if route[i] != a {
				continue
			}
			iv := m.store(a, points[i].T, float64(points[i].V))
			if len(ivs) == 0 || ivs[len(ivs)-1] != iv {
				ivs = append(ivs, iv)
			}
		}
		if len(ivs) > 0 {
			m.propagate(a, ivs)
		}
	}
}

// propStats accumulates what propagation met (Z1 = float32 xff grey zone, don't-care zone Z1).
type propStats struct {
	Z1          bool
	Recomputed2 int // coarser slots recomputed from >= 2 known values
	XffSkip     int // xff decided "skip" with >= 1 known value
	ZeroKnown   int // known == 0
	Levels      int
}

func (m *Model) propagate(a int, written []int64) {
	cur := written
	for lvl := a + 1; lvl < len(m.L.Archives) && len(cur) > 0; lvl++ {
		S := m.L.Archives[lvl].Step
		s := m.L.Archives[lvl-1].Step
		ratio := S / s
		var ts []int64
		for _, iv := range cur {
			t := alignDown(iv, S)
			if len(ts) == 0 || ts[len(ts)-1] != t {
				ts = append(ts, t)
			}
		}
		// ascending and distinct (writes are in time order, so cur is ascending)
		var stored []int64
		for _, t := range ts {
			var known []float64
			for k := int64(0); k < ratio; k++ {
				if v, ok := m.Get(lvl-1, t+k*s); ok {
					known = append(known, v)
				}
			}
			if len(known) == 0 {
				m.Stats.ZeroKnown++
				continue
			}
			// the statement: known fraction at least xFilesFactor; the code decides in float32.
			f32 := float32(len(known)) / float32(ratio)
			exactSkip := float64(len(known)) < float64(m.L.XFF)*float64(ratio)
			if (f32 < m.L.XFF) != exactSkip {
				m.Stats.Z1 = true
			}
			if f32 < m.L.XFF {
				m.Stats.XffSkip++
				continue
			}
			if len(known) >= 2 {
				m.Stats.Recomputed2++
			}
			m.Rings[lvl][m.class(lvl, t)] = mslot{t, aggModel(m.L.Method, known)}
			stored = append(stored, t)
		}
		if len(stored) > 0 {
			m.Stats.Levels++
		}
		cur = stored
	}
}

func aggModel(method int, known []float64) float64 {
	switch method {
	case 1, 2:
		s := 0.0
		for _, v := range known {
			s += v
		}
		if method == 1 {
			return s / float64(len(known))
		}
		return s
	case 3:
		return known[len(known)-1]
	case 4:
		mx := known[0]
		for _, v := range known {
			if v > mx {
				mx = v
			}
		}
		return mx
	case 5:
		mn := known[0]
		for _, v := range known {
			if v < mn {
				mn = v
			}
		}
		return mn
	case 6:
		return known[0]
	}
	panic("bad method")
}

// FetchShape is the C04 contract.
type FetchShape struct {
	Err     bool  // must fail
	Nil     bool  // no series
	Archive int   // archive used
	From    int64 // aligned bounds
	Until   int64
	Step    int64
	Count   int64
}

// BestForFetch is the finest archive whose retention reaches back to from.
func (l Layout) BestForFetch(from, now int64) int {
	for i, a := range l.Archives {
		if a.Ret() >= now-from {
			return i
		}
	}
	return len(l.Archives) - 1
}

// Shape computes the fetch contract for (id, from, until, now).
func (l Layout) Shape(id int, from, until, now int64) FetchShape {
	if from > until {
		return FetchShape{Err: true}
	}
	if id < -1 || id >= len(l.Archives) {
		return FetchShape{Err: true}
	}
	a := id
	if id == -1 {
		a = l.BestForFetch(from, now)
	}
	ar := l.Archives[a]
	oldest := now - ar.Ret()
	if from > now || until < oldest {
		return FetchShape{Nil: true, Archive: a}
	}
	if from < oldest {
		from = oldest
	}
	if until > now {
		until = now
	}
	fi := alignDown(from, ar.Step) + ar.Step
	ui := alignDown(until, ar.Step) + ar.Step
	if fi == ui {
		ui += ar.Step
	}
	return FetchShape{Archive: a, From: fi, Until: ui, Step: ar.Step, Count: (ui - fi) / ar.Step}
}

// Fetch returns the shape and, for a series, the values the model predicts.
func (m *Model) Fetch(id int, from, until, now int64) (FetchShape, []float64) {
	sh := m.L.Shape(id, from, until, now)
	if sh.Err || sh.Nil {
		return sh, nil
	}
	vals := make([]float64, 0, sh.Count)
	for t := sh.From; t < sh.Until; t += sh.Step {
		v, _ := m.Get(sh.Archive, t)
		vals = append(vals, v)
	}
	return sh, vals
}

// ---------------------------------------------------------------------------------------------
// layout validity (C07) in exact arithmetic

// RawArch is an unvalidated archive description (may be invalid).
type RawArch struct {
	Step   int64 `json:"step"`
	Points int64 `json:"points"`
}

type Validity int

const (
	Valid Validity = iota
	Invalid
	Grey // don't-care zone Z3
)

// ValidLayout judges an archive list by the rules of C07. reason names the first broken rule.
func ValidLayout(list []RawArch) (Validity, string) {
	if len(list) == 0 {
		return Invalid, "empty"
	}
	for i, a := range list {
		if a.Step < 1 || a.Step > math.MaxInt32 {
			return Invalid, fmt.Sprintf("step%d", i)
		}
		if a.Points < 1 || a.Points > math.MaxUint32 {
			return Invalid, fmt.Sprintf("points%d", i)
		}
	}
	for i := 0; i+1 < len(list); i++ {
		a, b := list[i], list[i+1]
		if !(a.Step < b.Step) {
			return Invalid, "finer"
		}
		if b.Step%a.Step != 0 {
			return Invalid, "divides"
		}
		if !(a.Step*a.Points < b.Step*b.Points) {
			return Invalid, "retention"
		}
		if a.Points < b.Step/a.Step {
			return Invalid, "consolidate"
		}
	}
	// representability in the 32-bit fields
	off := int64(16 + 12*len(list))
	grey := false
	for _, a := range list {
		if off > math.MaxUint32 {
			return Invalid, "offset32"
		}
		ret := a.Step * a.Points
		if ret > math.MaxUint32 {
			return Invalid, "retention32"
		}
		if ret > math.MaxInt32 {
			grey = true // Z3: retention in [2^31, 2^32)
		}
		off += 12 * a.Points
	}
	if off > math.MaxUint32 {
		grey = true // Z3: file end beyond 2^32 while every offset field fits
	}
	if grey {
		return Grey, "grey"
	}
	return Valid, ""
}
