package props

import (
	"encoding/binary"
	"errors"
	"fmt"
	"math"
	"testing"
	"unsafe"

	wt "github.com/hnakamur/whispertool"
	"pgregory.net/rapid"
)

// C14 - binary codec: encode/decode round-trips and frames exactly.

// Msg is one encodable object in plain data.
type Msg struct {
	Kind string  `json:"kind"` // header | series | points | point | value | timestamp | duration
	L    *Layout `json:"layout,omitempty"`
	From uint32  `json:"from,omitempty"`
	Step int32   `json:"step,omitempty"`
	// Bits are float64 bit patterns (series values, point values, the value)
	Bits  []uint64 `json:"bits,omitempty"`
	Times []uint32 `json:"times,omitempty"`
	Dur   int32    `json:"dur,omitempty"`
	// Tail (series): until = from + n*step + Tail with 0 <= Tail < step - a range that is not a whole number of
	// steps (NewTimeSeries is public and takes any bounds; the value count is floor(range / step))
	Tail int32 `json:"tail,omitempty"`
}

type C14Case struct {
	Msgs     []Msg  `json:"msgs"`     // concatenated in this order
	Dst      []byte `json:"dst"`      // pre-existing content of the destination buffer
	Trailing []byte `json:"trailing"` // arbitrary bytes after the last message
	// Cut is a per-mille position inside the first message for the truncation check
	Cut int `json:"cut"`
	// Reuse: messages of the same type are decoded into one reused target object
	Reuse bool `json:"reuse,omitempty"`
	// Long, when set, replaces everything above: the first Have bytes of a series too long to build in memory
	Long *LongSeries `json:"long,omitempty"`
}

// LongSeries: the fixed part of a series of N values (from, from + N*step, step) followed by Have zero bytes - a
// truncated valid message, however many values it announces (up to 2^31-1: a whole 1s:10y archive has 315360000)
type LongSeries struct {
	From uint32 `json:"from"`
	Step uint32 `json:"step"`
	N    int64  `json:"n"`
	Have int    `json:"have"`
}

func runC14Long(l LongSeries, ev *Evid) (fs []Finding) {
	b := make([]byte, 12+l.Have)
	binary.BigEndian.PutUint32(b[0:], l.From)
	binary.BigEndian.PutUint32(b[4:], uint32(int64(l.From)+l.N*int64(l.Step)))
	binary.BigEndian.PutUint32(b[8:], l.Step)
	var ts wt.TimeSeries
	var err error
	if pm := guard(func() { _, err = ts.TakeFrom(b) }); pm != "" {
		return []Finding{{Property: "C14", Key: "decode-panic", Detail: fmt.Sprintf("series of %d values, %d bytes given: %s", l.N, len(b), pm)}}
	}
	var w *wt.WantLargerBufferError
	if !errors.As(err, &w) {
		return []Finding{{Property: "C14", Key: "prefix-misreport", Detail: fmt.Sprintf("series: the %d-byte prefix of a valid %d-byte message (%d values of step %d from %d): error %v is not a want-larger-buffer request", len(b), 12+8*l.N, l.N, l.Step, l.From, err)}}
	}
	if int64(w.WantedBufSize) != 12+8*l.N {
		return []Finding{{Property: "C14", Key: "prefix-size", Detail: fmt.Sprintf("series: the %d-byte prefix of a valid %d-byte message asks for %d bytes", len(b), 12+8*l.N, w.WantedBufSize)}}
	}
	ev.Count(HashJSON(l), true, "kind=long-series-prefix")
	return nil
}

type codec interface {
	AppendTo([]byte) []byte
	TakeFrom([]byte) ([]byte, error)
}

func (m Msg) build() (codec, func() codec, error) {
	switch m.Kind {
	case "header":
		h, err := wt.NewHeader(wt.AggregationMethod(m.L.Method), m.L.XFF, wtArchives(*m.L))
		if err != nil {
			return nil, nil, err
		}
		return h, func() codec { return &wt.Header{} }, nil
	case "nil-series":
		// the absent series (what a fetch outside an archive's retention yields): encodes as an empty series
		return (*wt.TimeSeries)(nil), func() codec { return &wt.TimeSeries{} }, nil
	case "series":
		vals := make([]wt.Value, len(m.Bits))
		for i, b := range m.Bits {
			vals[i] = wt.Value(math.Float64frombits(b))
		}
		until := wt.Timestamp(m.From).Add(wt.Duration(int64(len(vals))*int64(m.Step) + int64(m.Tail)))
		return wt.NewTimeSeries(wt.Timestamp(m.From), until, wt.Duration(m.Step), vals), func() codec { return &wt.TimeSeries{} }, nil
	case "points":
		ps := make(wt.Points, len(m.Bits))
		for i := range ps {
			ps[i] = wt.Point{Time: wt.Timestamp(m.Times[i]), Value: wt.Value(math.Float64frombits(m.Bits[i]))}
		}
		return &ps, func() codec { return &wt.Points{} }, nil
	case "point":
		return &wt.Point{Time: wt.Timestamp(m.Times[0]), Value: wt.Value(math.Float64frombits(m.Bits[0]))}, func() codec { return &wt.Point{} }, nil
	case "value":
		v := wt.Value(math.Float64frombits(m.Bits[0]))
		return &v, func() codec { return new(wt.Value) }, nil
	case "timestamp":
		ts := wt.Timestamp(m.Times[0])
		return &ts, func() codec { return new(wt.Timestamp) }, nil
	case "duration":
		d := wt.Duration(m.Dur)
		return &d, func() codec { return new(wt.Duration) }, nil
	}
	return nil, nil, fmt.Errorf("unknown kind %q", m.Kind)
}

// equalObj compares the decoded object with the original field by field (values bit-wise).
func equalObj(kind string, a, b codec) string {
	vb := func(x, y wt.Value) bool { return math.Float64bits(float64(x)) == math.Float64bits(float64(y)) }
	switch kind {
	case "header":
		x, y := a.(*wt.Header), b.(*wt.Header)
		if x.AggregationMethod() != y.AggregationMethod() || math.Float32bits(x.XFilesFactor()) != math.Float32bits(y.XFilesFactor()) || x.MaxRetention() != y.MaxRetention() {
			return fmt.Sprintf("meta differs: %v/%v/%v vs %v/%v/%v", x.AggregationMethod(), x.XFilesFactor(), x.MaxRetention(), y.AggregationMethod(), y.XFilesFactor(), y.MaxRetention())
		}
		if len(x.ArchiveInfoList()) != len(y.ArchiveInfoList()) || !x.ArchiveInfoList().Equal(y.ArchiveInfoList()) {
			return fmt.Sprintf("archive list differs: %v vs %v", x.ArchiveInfoList(), y.ArchiveInfoList())
		}
		if x.Size() != y.Size() || x.ExpectedFileSize() != y.ExpectedFileSize() || x.String() != y.String() {
			return "derived fields (size / offsets) differ"
		}
	case "nil-series":
		y := b.(*wt.TimeSeries)
		if y.FromTime() != 0 || y.UntilTime() != 0 || y.Step() != 0 || len(y.Values()) != 0 || len(y.Points()) != 0 {
			return fmt.Sprintf("the absent series decoded as %d..%d/%d with %d values", y.FromTime(), y.UntilTime(), y.Step(), len(y.Values()))
		}
	case "series":
		x, y := a.(*wt.TimeSeries), b.(*wt.TimeSeries)
		if x.FromTime() != y.FromTime() || x.UntilTime() != y.UntilTime() || x.Step() != y.Step() || len(x.Values()) != len(y.Values()) {
			return fmt.Sprintf("series shape differs: %d..%d/%d n=%d vs %d..%d/%d n=%d", x.FromTime(), x.UntilTime(), x.Step(), len(x.Values()), y.FromTime(), y.UntilTime(), y.Step(), len(y.Values()))
		}
		for i := range x.Values() {
			if !vb(x.Values()[i], y.Values()[i]) {
				return fmt.Sprintf("series value %d differs: %016x vs %016x", i, math.Float64bits(float64(x.Values()[i])), math.Float64bits(float64(y.Values()[i])))
			}
		}
	case "points":
		x, y := *a.(*wt.Points), *b.(*wt.Points)
		if len(x) != len(y) {
			return fmt.Sprintf("point count differs: %d vs %d", len(x), len(y))
		}
		for i := range x {
			if x[i].Time != y[i].Time || !vb(x[i].Value, y[i].Value) {
				return fmt.Sprintf("point %d differs", i)
			}
		}
	case "point":
		x, y := a.(*wt.Point), b.(*wt.Point)
		if x.Time != y.Time || !vb(x.Value, y.Value) {
			return "point differs"
		}
	case "value":
		if !vb(*a.(*wt.Value), *b.(*wt.Value)) {
			return fmt.Sprintf("value differs: %016x vs %016x", math.Float64bits(float64(*a.(*wt.Value))), math.Float64bits(float64(*b.(*wt.Value))))
		}
	case "timestamp":
		if *a.(*wt.Timestamp) != *b.(*wt.Timestamp) {
			return "timestamp differs"
		}
	case "duration":
		if *a.(*wt.Duration) != *b.(*wt.Duration) {
			return "duration differs"
		}
	}
	return ""
}

func bytesEq(a, b []byte) bool {
	if len(a) != len(b) {
		return false
	}
	for i := range a {
		if a[i] != b[i] {
			return false
		}
	}
	return true
}

func runC14(c C14Case, ev *Evid) (fs []Finding) {
	if c.Long != nil {
		return runC14Long(*c.Long, ev)
	}
	add := func(key, format string, args ...interface{}) {
		fs = append(fs, Finding{Property: "C14", Key: key, Detail: fmt.Sprintf(format, args...)})
	}
	type built struct {
		m     Msg
		obj   codec
		fresh func() codec
		enc   []byte
	}
	var bs []built
	buf := append([]byte(nil), c.Dst...)
	for i, m := range c.Msgs {
		obj, fresh, err := m.build()
		if err != nil {
			ev.Discard("unbuildable-message")
			return nil
		}
		var out []byte
		if pm := guard(func() { out = obj.AppendTo(buf) }); pm != "" {
			add("encode-panic", "msg %d (%s): AppendTo panicked: %s", i, m.Kind, pm)
			return
		}
		if len(out) < len(buf) || !bytesEq(out[:len(buf)], buf) {
			add("encode-clobbers-dst", "msg %d (%s): AppendTo changed or dropped the %d bytes already in dst", i, m.Kind, len(buf))
			return
		}
		enc := append([]byte(nil), out[len(buf):]...)
		// the same message into a REUSED buffer: spare capacity full of stale bytes (buf[:n] of a pooled buffer)
		dirty := make([]byte, len(c.Dst)+len(enc)+40)
		for j := range dirty {
			dirty[j] = 0xA5
		}
		copy(dirty, c.Dst)
		var out2 []byte
		if pm := guard(func() { out2 = obj.AppendTo(dirty[:len(c.Dst)]) }); pm != "" {
			add("encode-panic", "msg %d (%s): AppendTo into a reused buffer panicked: %s", i, m.Kind, pm)
			return
		}
		if len(out2) != len(c.Dst)+len(enc) || !bytesEq(out2[:len(c.Dst)], c.Dst) || !bytesEq(out2[len(c.Dst):], enc) {
			add("encode-depends-on-spare-capacity", "msg %d (%s): encoding into a reused buffer (stale bytes in its spare capacity) gives %d bytes that differ from the %d-byte encoding into a fresh one", i, m.Kind, len(out2)-len(c.Dst), len(enc))
			return
		}
		bs = append(bs, built{m, obj, fresh, enc})
		buf = out
	}
	stream := append(append([]byte(nil), buf[len(c.Dst):]...), c.Trailing...)
	total := len(stream) - len(c.Trailing)

	// sequential decode of the concatenation
	rest := stream
	consumed := 0
	typeOf := func(kind string) string {
		if kind == "nil-series" {
			return "series"
		}
		return kind
	}
	used := map[string]codec{} // decode targets already used for this type: decoding must fully overwrite them
	for i, b := range bs {
		dec := b.fresh()
		if prev, ok := used[typeOf(b.m.Kind)]; ok && c.Reuse {
			dec = prev
		}
		used[typeOf(b.m.Kind)] = dec
		var r []byte
		var err error
		if pm := guard(func() { r, err = dec.TakeFrom(rest) }); pm != "" {
			add("decode-panic", "msg %d (%s, %d bytes): TakeFrom panicked: %s", i, b.m.Kind, len(b.enc), pm)
			return
		}
		if err != nil {
			add("decode-error", "msg %d (%s): TakeFrom of a complete encoding (%d bytes, %d available) failed: %v", i, b.m.Kind, len(b.enc), len(rest), err)
			return
		}
		if len(rest)-len(r) != len(b.enc) {
			add("decode-consumed", "msg %d (%s): consumed %d bytes, encoding has %d", i, b.m.Kind, len(rest)-len(r), len(b.enc))
			return
		}
		if len(r) > 0 && unsafe.Pointer(&r[0]) != unsafe.Pointer(&rest[len(b.enc)]) {
			add("decode-remainder", "msg %d (%s): the returned remainder is not the tail of the input", i, b.m.Kind)
			return
		}
		if d := equalObj(b.m.Kind, b.obj, dec); d != "" {
			add("roundtrip-differs", "msg %d (%s): %s", i, b.m.Kind, d)
			return
		}
		var re []byte
		if pm := guard(func() { re = dec.AppendTo(nil) }); pm != "" {
			add("encode-panic", "msg %d (%s): re-encoding the decoded object panicked: %s", i, b.m.Kind, pm)
			return
		}
		if !bytesEq(re, b.enc) {
			add("reencode-differs", "msg %d (%s): decode(encode(x)) re-encodes to different bytes", i, b.m.Kind)
			return
		}
		consumed += len(b.enc)
		rest = r
	}
	if !bytesEq(rest, c.Trailing) {
		add("trailing-touched", "after decoding all messages the remainder differs from the trailing bytes")
		return
	}
	if !bytesEq(stream[total:], c.Trailing) || consumed != total {
		add("input-modified", "decoding modified its input")
		return
	}

	// truncation protocol on the first message: every generated proper prefix
	first := bs[0]
	nontrivial := false
	if n := len(first.enc); n > 0 {
		cuts := []int{c.Cut * n / 1000, 0, n - 1, 3, 4, 8, 11, 12, 15, 16, 27, 28}
		for _, cut := range cuts {
			if cut < 0 || cut >= n {
				continue
			}
			have := cut
			steps := 0
			for {
				dec := first.fresh()
				var err error
				p := append([]byte(nil), first.enc[:have]...)
				if pm := guard(func() { _, err = dec.TakeFrom(p) }); pm != "" {
					add("prefix-panic", "%s: TakeFrom of a %d-byte prefix of a %d-byte encoding panicked: %s", first.m.Kind, have, n, pm)
					return
				}
				if have == n {
					if err != nil {
						add("prefix-retry-fails", "%s: retry with the wanted size %d (complete message) failed: %v", first.m.Kind, have, err)
						return
					}
					break
				}
				if err == nil {
					add("prefix-accepted", "%s: a %d-byte proper prefix of a %d-byte encoding decoded successfully", first.m.Kind, have, n)
					return
				}
				var w *wt.WantLargerBufferError
				if !errors.As(err, &w) {
					add("prefix-misreport", "%s: %d-byte prefix of %d: error %q is not a want-larger-buffer request", first.m.Kind, have, n, err)
					return
				}
				if !(w.WantedBufSize > have && w.WantedBufSize <= n) {
					add("prefix-wanted-size", "%s: %d-byte prefix of %d-byte encoding: wanted size %d not in (%d, %d]", first.m.Kind, have, n, w.WantedBufSize, have, n)
					return
				}
				// another decoder answering another short read in between (a second connection, another file)
				// must not change THIS answer
				asked := w.WantedBufSize
				var otherHdr wt.Header
				var otherTS wt.Timestamp
				guard(func() { otherHdr.TakeFrom(make([]byte, 20)) })
				guard(func() { otherTS.TakeFrom(nil) })
				if w.WantedBufSize != asked {
					add("prefix-wanted-size", "%s: %d-byte prefix of %d-byte encoding: the decoder asked for %d bytes, but after two other decoders had answered short reads of their own the same error object asks for %d", first.m.Kind, have, n, asked, w.WantedBufSize)
					return
				}
				have = w.WantedBufSize
				steps++
				if steps > 3 {
					add("prefix-no-progress", "%s: more than 3 retries", first.m.Kind)
					return
				}
			}
		}
		nontrivial = n > 16 || len(c.Trailing) > 0 || len(c.Msgs) > 1
	}
	cls := []string{"first=" + first.m.Kind}
	if c.Reuse {
		cls = append(cls, "reused-decode-target")
	}
	if len(c.Msgs) > 1 {
		cls = append(cls, "concatenated")
	}
	if len(c.Trailing) > 0 {
		cls = append(cls, "trailing-bytes")
	}
	if len(first.enc) > 4096 {
		cls = append(cls, "message>4KiB")
	}
	ev.Count(HashJSON(c), nontrivial, cls...)
	if nontrivial && ev.WantSample() && len(stream) < 400 {
		ev.Sample(c)
	}
	return nil
}

var specialBits = []uint64{
	0, 1 << 63, // +0 -0
	0x7ff0000000000000, 0xfff0000000000000, // +-Inf
	0x7ff8000000000000, 0x7ff8000000000001, 0xfff8000000000000, // quiet NaNs with payloads
	0x7ff0000000000001, 0x7ff4000000000000, 0xfff0000000000001, // signalling NaNs
	0x7fffffffffffffff, 0xffffffffffffffff,
	1, 0x000fffffffffffff, 0x0010000000000000, // subnormals / smallest normal
	0x7fefffffffffffff, 0x3ff0000000000000, 0x3fb999999999999a,
}

func genBits(t *rapid.T) uint64 {
	if rapid.IntRange(0, 3).Draw(t, "bitsKind") == 0 {
		return rapid.SampledFrom(specialBits).Draw(t, "special")
	}
	return rapid.Uint64().Draw(t, "bits")
}

func genTime32(t *rapid.T) uint32 {
	if rapid.IntRange(0, 3).Draw(t, "timeKind") == 0 {
		return rapid.SampledFrom([]uint32{0, 1, 1<<31 - 1, 1 << 31, 1<<32 - 1, 1500000000}).Draw(t, "tSpecial")
	}
	return rapid.Uint32().Draw(t, "time")
}

func genMsg(t *rapid.T, kinds []string) Msg {
	m := Msg{Kind: rapid.SampledFrom(kinds).Draw(t, "kind")}
	switch m.Kind {
	case "header":
		l := genLayout(t, defaultLayoutOpts())
		if rapid.IntRange(0, 5).Draw(t, "manyArchives") == 0 {
			l = genManyArchiveLayout(t)
		}
		m.L = &l
	case "series":
		n := rapid.IntRange(0, 40).Draw(t, "n")
		if rapid.IntRange(0, 9).Draw(t, "long") == 0 {
			n = rapid.IntRange(0, 2000).Draw(t, "nLong")
		}
		m.Step = rapid.Int32Range(1, math.MaxInt32).Draw(t, "step")
		if rapid.Bool().Draw(t, "smallStep") {
			m.Step = rapid.Int32Range(1, 3600).Draw(t, "stepSmall")
		}
		// until = from + n*step must fit 32 bits (the span itself may exceed 2^31 seconds)
		for int64(n)*int64(m.Step) > math.MaxUint32 {
			n /= 2
		}
		span := int64(n) * int64(m.Step)
		if m.Step > 1 && rapid.IntRange(0, 4).Draw(t, "unalignedRange") == 0 {
			m.Tail = rapid.Int32Range(1, m.Step-1).Draw(t, "tail")
			if span+int64(m.Tail) > math.MaxUint32 {
				m.Tail = 0
			}
			span += int64(m.Tail)
		}
		m.From = uint32(rapid.Int64Range(0, math.MaxUint32-span).Draw(t, "from"))
		for i := 0; i < n; i++ {
			m.Bits = append(m.Bits, genBits(t))
		}
	case "points":
		n := rapid.IntRange(0, 30).Draw(t, "n")
		if rapid.IntRange(0, 9).Draw(t, "long") == 0 {
			n = rapid.IntRange(0, 2000).Draw(t, "nLong")
		}
		for i := 0; i < n; i++ {
			m.Bits = append(m.Bits, genBits(t))
			m.Times = append(m.Times, genTime32(t))
		}
	case "point":
		m.Bits = []uint64{genBits(t)}
		m.Times = []uint32{genTime32(t)}
	case "value":
		m.Bits = []uint64{genBits(t)}
	case "timestamp":
		m.Times = []uint32{genTime32(t)}
	case "duration":
		m.Dur = rapid.Int32().Draw(t, "dur")
	}
	return m
}

var allKinds = []string{"header", "series", "series", "series", "nil-series", "points", "points", "point", "value", "timestamp", "duration"}

func genC14(t *rapid.T) C14Case {
	var c C14Case
	if rapid.IntRange(0, 39).Draw(t, "longSeries") == 0 {
		// value counts around the powers of two between 2^16 and 2^31 (and the whole range at random)
		var n int64
		if rapid.Bool().Draw(t, "nearPower") {
			n = int64(1)<<uint(rapid.IntRange(16, 31).Draw(t, "power")) + rapid.Int64Range(-2, 1).Draw(t, "powerDelta")
		} else {
			n = rapid.Int64Range(1<<16, 1<<31-1).Draw(t, "values")
		}
		if n > 1<<31-1 {
			n = 1<<31 - 1
		}
		step := uint32(rapid.Int64Range(1, (1<<32-1)/n).Draw(t, "longStep"))
		from := uint32(rapid.Int64Range(0, 1<<32-1-n*int64(step)).Draw(t, "longFrom"))
		c.Long = &LongSeries{From: from, Step: step, N: n, Have: rapid.SampledFrom([]int{0, 1, 8, 100, 4093}).Draw(t, "have")}
		return c
	}
	n := rapid.IntRange(1, 4).Draw(t, "msgs")
	for i := 0; i < n; i++ {
		c.Msgs = append(c.Msgs, genMsg(t, allKinds))
	}
	if rapid.Bool().Draw(t, "hasDst") {
		c.Dst = rapid.SliceOfN(rapid.Byte(), 0, 20).Draw(t, "dst")
	}
	if rapid.IntRange(0, 2).Draw(t, "hasTrailing") > 0 {
		c.Trailing = rapid.SliceOfN(rapid.Byte(), 1, 40).Draw(t, "trailing")
	}
	c.Cut = rapid.IntRange(0, 999).Draw(t, "cut")
	c.Reuse = rapid.Bool().Draw(t, "reuse")
	if c.Reuse && rapid.Bool().Draw(t, "sameType") {
		// several messages of one type so that the reused target really is dirty
		k := rapid.SampledFrom([][]string{{"series", "nil-series", "series"}, {"points"}, {"header"}, {"point"}}).Draw(t, "reuseKinds")
		n := rapid.IntRange(2, 4).Draw(t, "reuseMsgs")
		c.Msgs = nil
		for i := 0; i < n; i++ {
			c.Msgs = append(c.Msgs, genMsg(t, k))
		}
	}
	return c
}

func TestC14(t *testing.T) {
	RunProperty(t, Property[C14Case]{
		ID:          "C14",
		Rule:        "rapid-generated sequences of 1-4 encodable objects (valid headers of 1-4 archives, series of 0-2000 values with any step >= 1 and until <= 2^32-1 (spans beyond 2^31 s included), point lists of 0-2000 points, points, values of any float64 bit pattern incl. NaN payloads / signalling NaNs / infinities / -0, any uint32 time, any int32 duration) appended to a generated destination prefix and followed by generated trailing bytes; checked: field-wise + bit-wise equality after decode, re-encoding equality, exact consumption, remainder aliasing the input tail, sequential decoding of the concatenation, and for ~12 proper prefixes of the first message the want-larger-buffer protocol (size in (given, complete], retry terminates within 3 steps). Non-trivial: first message longer than 16 bytes, or trailing bytes, or a concatenation. Distinct = hash of the case.",
		Assumptions: []string{"series satisfy until = from + n*step with until <= 2^32-1"},
		Gen:         genC14,
		Run:         runC14,
	})
}

// FuzzC14 is the coverage-guided variant (thorough tier): bytes -> rapid bit stream -> case.
func FuzzC14(f *testing.F) {
	ev := newEvid("C14")
	f.Add([]byte{})
	f.Add([]byte{1, 2, 3, 4, 5, 6, 7, 8, 9, 10, 11, 12, 13, 14, 15, 16})
	f.Fuzz(rapid.MakeFuzz(func(t *rapid.T) {
		c := genC14(t)
		if fs := runC14(c, ev); len(fs) > 0 {
			saveReplay("C14", c, fs)
			t.Fatalf("%s", fs[0])
		}
	}))
}
