package props

import (
	"encoding/binary"
	"fmt"
	"math"
	"os"
	"strings"
	"testing"
	"time"

	"pgregory.net/rapid"
)

// C15 - corrupt or hostile bytes are rejected with an error, never a crash.
type C15Case struct {
	Target string `json:"target"`
	Data   []byte `json:"data"`
	Now    int64  `json:"now,omitempty"`
	Origin string `json:"origin,omitempty"` // how the bytes were made (class label)
	// Claim (http targets): when non-zero the hostile server announces this Content-Length, sends the data and
	// closes the connection (a response header is untrusted input too)
	Claim int64 `json:"claim,omitempty"`
	// Status (http targets): HTTP status of the hostile reply when non-zero (with the data, possibly empty, as body)
	Status int `json:"status,omitempty"`
	// Listing (http targets): body of the hostile /items and /files listings ("" = one plain name)
	Listing string `json:"listing,omitempty"`
	// Alter (two-sided http targets): the peer is a real server over healthy files of the layout in Data, reached
	// through a relay that alters the request's query this way: a well-formed answer to another question
	Alter string `json:"alter,omitempty"`
}

var c15Child *hostileChild

func hostileCall(req hostileReq) hostileResp {
	for attempt := 0; ; attempt++ {
		if c15Child == nil {
			ch, err := startHostileChild()
			if err != nil {
				panic("cannot start sandbox child: " + err.Error())
			}
			c15Child = ch
		}
		resp, died := c15Child.call(req, 20*time.Second)
		if died {
			c15Child.kill()
			c15Child = nil
		}
		if resp.Timeout && attempt == 0 {
			if c15HangConfirmed {
				resp.Hang = true
				return resp
			}
			// the statement lists "hangs" beside panics: the same input is given to a fresh child with 90 s more.
			// Inputs are a few kilobytes and are decoded in milliseconds even on a loaded machine, so no answer
			// within 20 s and again within 90 s (two processes) is a hang, not slowness.
			ch, err := startHostileChild()
			if err != nil {
				return resp
			}
			c15Child = ch
			resp2, died2 := c15Child.call(req, 90*time.Second)
			if died2 {
				c15Child.kill()
				c15Child = nil
			}
			if resp2.Timeout {
				c15HangConfirmed = true
				resp2.Hang = true
			}
			return resp2
		}
		return resp
	}
}

const allocSlack = 1 << 20

// c15HangConfirmed: an input was given to two child processes (20 s, then 90 s) and neither answered; later
// 20 s timeouts of this process (the shrinker's attempts) are then taken as the same hang without waiting again.
var c15HangConfirmed bool

func runC15(c C15Case, ev *Evid) (fs []Finding) {
	resp := hostileCall(hostileReq{Target: c.Target, Data: c.Data, Now: c.Now, Claim: c.Claim, Status: c.Status, Listing: c.Listing, Alter: c.Alter})
	desc := fmt.Sprintf("target=%s origin=%s%s %d bytes %s", c.Target, c.Origin, map[bool]string{true: " alter=" + c.Alter}[c.Alter != ""], len(c.Data), hexHead(c.Data, 48))
	switch {
	case resp.Timeout && resp.Hang:
		return []Finding{{Property: "C15", Key: "hang", Detail: desc + ": no answer within 20 s and, from a fresh process, within 90 s (the statement excludes hangs)"}}
	case resp.Timeout:
		// a true hang cannot be told from slowness: reported as inconclusive by the driver (DESIGN section 8)
		ev.Class("timeout-inconclusive")
		fmt.Printf("VERIF-TIMEOUT property=C15 %s\n", desc)
		return nil
	case resp.Died != "":
		key := "child-died"
		if strings.Contains(resp.Died, "out of memory") || strings.Contains(resp.Died, "cannot allocate") {
			key = "out-of-memory"
		} else if strings.Contains(resp.Died, "stack overflow") {
			key = "stack-overflow"
		}
		return []Finding{{Property: "C15", Key: key, Detail: fmt.Sprintf("%s: the sandboxed decoder process (address space capped at 3 GiB) died:\n%s", desc, resp.Died)}}
	case resp.Panic != "":
		return []Finding{{Property: "C15", Key: "panic", Detail: fmt.Sprintf("%s: panic in %s: %s", desc, resp.Where, resp.Panic)}}
	}
	limit := uint64(allocSlack + 64*len(c.Data))
	if c.Target == "http-diff-src" || c.Target == "http-copy-src" || c.Target == "http-sumdiff-dest" || c.Target == "http-sumdiff-src" {
		// the healthy local side of the command is a real file of the announced layout (up to 1 MiB): creating,
		// reading and comparing it is proportional to ITS size
		if h, err := ParseWspHeader(c.Data); err == nil {
			size := int64(16 + 12*len(h.Archives))
			for _, a := range h.Archives {
				size += 12 * int64(a.Points)
			}
			if size <= 1<<20 {
				limit += uint64(96 * size)
			}
		}
	}
	if c.Listing != "" {
		// every listed name is a request of its own whose reply (the data) is decoded once more
		lines := strings.Count(c.Listing, "\n") + 1
		limit += uint64(64*len(c.Listing) + lines*(64*len(c.Data)+32768))
	}
	if resp.Alloc > limit {
		return []Finding{{Property: "C15", Key: "allocation", Detail: fmt.Sprintf("%s: %d bytes allocated while handling a %d-byte input (bound %d); last call %s", desc, resp.Alloc, len(c.Data), limit, resp.Where)}}
	}
	gate := map[string]int{"header": 16, "series": 12, "points": 8, "point": 12, "value": 8, "timestamp": 4, "duration": 4, "archiveinfo": 12, "file": 16, "http-view": 16, "http-view-raw": 16, "http-sum": 16, "http-diff-src": 16, "http-copy-src": 16, "http-sumdiff-dest": 16, "http-sumdiff-src": 16}[c.Target]
	nontrivial := len(c.Data) >= gate
	cls := []string{"target=" + c.Target, "origin=" + c.Origin}
	if c.Alter != "" {
		cls = append(cls, "alter="+c.Alter)
	}
	if resp.Decoded {
		cls = append(cls, "accepted")
	} else {
		cls = append(cls, "rejected")
	}
	ev.Count(Hash64(c.Target, string(c.Data), c.Now+c.Claim+int64(c.Status)<<40+int64(len(c.Listing))<<20+int64(len(c.Alter))<<50), nontrivial, cls...)
	if nontrivial && ev.WantSample() && len(c.Data) < 200 {
		ev.Sample(c)
	}
	return nil
}

func hexHead(b []byte, n int) string {
	if len(b) <= n {
		return fmt.Sprintf("%x", b)
	}
	return fmt.Sprintf("%x...", b[:n])
}

var extreme32 = []uint32{0, 1, 2, 1<<31 - 1, 1 << 31, 1<<32 - 1, 0x15555556, 0x15555555, 0x0AAAAAAB, 0x20000000, 0x10000000, 0x0CCCCCCD, 0x80000001, 0xFFFFFFF0, 0x00FFFFFF, 0x7FFFFFF0}
var extreme64 = []uint64{0, 1, 1 << 31, 1 << 32, 1<<63 - 1, 1 << 63, 1<<64 - 1, 0x1555555555555556, 0x2000000000000000, 0x0AAAAAAAAAAAAAAB, 0x1000000000000000, 0x0000000015555556, 0xFFFFFFFFFFFFFFF0, 0x0000000100000000, 0x00000000FFFFFFFF}

// spec-side encoders (the harness's own, not the repo's)
func encSeries(from, until, step uint32, vals []uint64) []byte {
	b := make([]byte, 12+8*len(vals))
	binary.BigEndian.PutUint32(b[0:], from)
	binary.BigEndian.PutUint32(b[4:], until)
	binary.BigEndian.PutUint32(b[8:], step)
	for i, v := range vals {
		binary.BigEndian.PutUint64(b[12+8*i:], v)
	}
	return b
}

func encPoints(times []uint32, vals []uint64) []byte {
	b := make([]byte, 8+12*len(times))
	binary.BigEndian.PutUint64(b, uint64(len(times)))
	for i := range times {
		binary.BigEndian.PutUint32(b[8+12*i:], times[i])
		binary.BigEndian.PutUint64(b[12+12*i:], vals[i])
	}
	return b
}

func genSmallLayout(t *rapid.T) Layout {
	o := defaultLayoutOpts()
	o.AllowMultiPage = false
	o.MaxArchives = 3
	return genLayout(t, o)
}

// genValidBytes builds a valid message for the target from the specification.
func genValidBytes(t *rapid.T, target string) []byte {
	return genValidBytesAt(t, target, 1500000000)
}

// genBigCountFile: a header whose archive count is far beyond any real file (hundreds to thousands)
// with a file long enough to hold the announced archive table (exercises the header re-read path).
func genBigCountFile(t *rapid.T) []byte {
	count := rapid.IntRange(330, 1500).Draw(t, "count")
	hdr := EncodeLayoutHeader(Layout{Archives: []Arch{{Step: 1, Points: 60}}, Method: rapid.IntRange(1, 6).Draw(t, "method"), XFF: 0.5})
	binary.BigEndian.PutUint32(hdr[12:], uint32(count))
	size := 16 + 12*count + rapid.IntRange(0, 9000).Draw(t, "extra")
	if rapid.IntRange(0, 4).Draw(t, "short") == 0 {
		size = 16 + 12*count - rapid.IntRange(1, 12*count-12).Draw(t, "missing")
	}
	b := make([]byte, size)
	copy(b, hdr)
	switch rapid.IntRange(0, 2).Draw(t, "tableKind") {
	case 0: // zero-filled table
	case 1: // plausible contiguous entries
		off := 16 + 12*count
		for i := 0; i < count && 16+12*i+12 <= len(b); i++ {
			binary.BigEndian.PutUint32(b[16+12*i:], uint32(off))
			binary.BigEndian.PutUint32(b[16+12*i+4:], uint32(1<<uint(i%20)))
			binary.BigEndian.PutUint32(b[16+12*i+8:], 2)
			off += 24
		}
	default: // garbage after a plausible first entry
		g := rapid.SliceOfN(rapid.Byte(), 64, 64).Draw(t, "garbage")
		for i := 28; i < len(b); i++ {
			b[i] = g[i%64]
		}
	}
	return b
}

func genValidBytesAt(t *rapid.T, target string, now int64) []byte {
	switch target {
	case "header":
		return EncodeLayoutHeader(genSmallLayout(t))
	case "series":
		n := rapid.IntRange(0, 20).Draw(t, "n")
		step := uint32(rapid.IntRange(1, 3600).Draw(t, "step"))
		from := rapid.Uint32Range(0, 1<<31).Draw(t, "from")
		vals := make([]uint64, n)
		for i := range vals {
			vals[i] = math.Float64bits(float64(i))
		}
		return encSeries(from, from+uint32(n)*step, step, vals)
	case "points":
		n := rapid.IntRange(0, 20).Draw(t, "n")
		times := make([]uint32, n)
		vals := make([]uint64, n)
		for i := range times {
			times[i] = 1500000000 + uint32(i)
			vals[i] = math.Float64bits(float64(i))
		}
		return encPoints(times, vals)
	case "point":
		return encPoints([]uint32{1500000000}, []uint64{0x3ff0000000000000})[8:]
	case "value":
		b := make([]byte, 8)
		binary.BigEndian.PutUint64(b, rapid.Uint64().Draw(t, "v"))
		return b
	case "timestamp", "duration":
		b := make([]byte, 4)
		binary.BigEndian.PutUint32(b, rapid.Uint32().Draw(t, "v"))
		return b
	case "archiveinfo":
		b := make([]byte, 12)
		binary.BigEndian.PutUint32(b[0:], 28)
		binary.BigEndian.PutUint32(b[4:], uint32(rapid.IntRange(1, 3600).Draw(t, "step")))
		binary.BigEndian.PutUint32(b[8:], uint32(rapid.IntRange(1, 1000).Draw(t, "pts")))
		return b
	case "file":
		l := genSmallLayout(t)
		b := make([]byte, l.FileSize())
		copy(b, EncodeLayoutHeader(l))
		// some stored points
		if rapid.Bool().Draw(t, "populated") {
			off := 16 + 12*len(l.Archives)
			for _, a := range l.Archives {
				base := alignDown(now, a.Step)
				for j := int64(0); j < a.Points && j < 50; j++ {
					binary.BigEndian.PutUint32(b[off+int(12*j):], uint32(base+j*a.Step))
					binary.BigEndian.PutUint64(b[off+int(12*j)+4:], math.Float64bits(float64(j)))
				}
				off += int(12 * a.Points)
			}
		}
		return b
	case "http-view", "http-sum", "http-diff-src", "http-copy-src", "http-sumdiff-dest", "http-sumdiff-src":
		l := genSmallLayout(t)
		b := EncodeLayoutHeader(l)
		for _, a := range l.Archives {
			n := rapid.IntRange(0, 6).Draw(t, "n")
			from := uint32(alignDown(1500000000, a.Step))
			vals := make([]uint64, n)
			b = append(b, encSeries(from, from+uint32(int64(n)*a.Step), uint32(a.Step), vals)...)
		}
		return b
	case "http-view-raw":
		l := genSmallLayout(t)
		b := EncodeLayoutHeader(l)
		for range l.Archives {
			n := rapid.IntRange(0, 6).Draw(t, "n")
			times := make([]uint32, n)
			vals := make([]uint64, n)
			b = append(b, encPoints(times, vals)...)
		}
		return b
	}
	return nil
}

func mutateBytes(t *rapid.T, b []byte) ([]byte, string) {
	b = append([]byte(nil), b...)
	switch rapid.IntRange(0, 9).Draw(t, "mutKind") {
	case 0:
		return b, "valid"
	case 1: // truncation
		if len(b) > 0 {
			return b[:rapid.IntRange(0, len(b)-1).Draw(t, "cut")], "truncated"
		}
		return b, "valid"
	case 2: // bit flips
		n := rapid.IntRange(1, 4).Draw(t, "flips")
		for i := 0; i < n && len(b) > 0; i++ {
			p := rapid.IntRange(0, len(b)-1).Draw(t, "flipAt")
			if rapid.Bool().Draw(t, "early") && len(b) > 64 {
				p = rapid.IntRange(0, 63).Draw(t, "flipEarly")
			}
			b[p] ^= 1 << rapid.IntRange(0, 7).Draw(t, "bit")
		}
		return b, "bitflip"
	case 3, 4, 5: // 32-bit field substitution
		if len(b) >= 4 {
			max := (len(b) - 4) / 4
			if max > 24 {
				max = 24
			}
			p := 4 * rapid.IntRange(0, max).Draw(t, "field32")
			binary.BigEndian.PutUint32(b[p:], rapid.SampledFrom(extreme32).Draw(t, "ext32"))
		}
		return b, "field32"
	case 6, 7: // 64-bit field substitution (point-list counts)
		if len(b) >= 8 {
			max := (len(b) - 8) / 4
			if max > 24 {
				max = 24
			}
			p := 4 * rapid.IntRange(0, max).Draw(t, "field64")
			binary.BigEndian.PutUint64(b[p:], rapid.SampledFrom(extreme64).Draw(t, "ext64"))
		}
		return b, "field64"
	case 8: // truncate the body but keep the header (damaged file)
		if len(b) > 40 {
			keep := rapid.IntRange(16, 40+rapid.IntRange(0, len(b)-41).Draw(t, "extra")).Draw(t, "keep")
			return b[:keep], "body-truncated"
		}
		return b, "valid"
	default: // two substitutions
		for i := 0; i < 2 && len(b) >= 4; i++ {
			max := (len(b) - 4) / 4
			if max > 12 {
				max = 12
			}
			p := 4 * rapid.IntRange(0, max).Draw(t, "field32b")
			binary.BigEndian.PutUint32(b[p:], rapid.SampledFrom(extreme32).Draw(t, "ext32b"))
		}
		return b, "field32x2"
	}
}

var c15Targets = []string{"file", "file", "http-view", "http-view-raw", "http-sum", "http-diff-src", "http-copy-src", "http-sumdiff-dest", "http-sumdiff-src", "header", "series", "points", "file", "series", "points", "header", "point", "value", "timestamp", "duration", "archiveinfo"}

func genC15(t *rapid.T) C15Case {
	c := C15Case{Target: rapid.SampledFrom(c15Targets).Draw(t, "target"), Now: 1500000000 + rapid.Int64Range(0, 100000).Draw(t, "now")}
	if rapid.IntRange(0, 9).Draw(t, "random") == 0 {
		c.Data = rapid.SliceOfN(rapid.Byte(), 0, 80).Draw(t, "randomBytes")
		c.Origin = "random"
		return c
	}
	if c.Target == "file" && rapid.IntRange(0, 9).Draw(t, "epochHigh") == 0 {
		// zone Z7 also applies to hostile files' clocks: two coarsest steps (of the small layouts, < 2^24 s) below 2^32
		c.Now = rapid.Int64Range(1<<31, 1<<32-1<<26).Draw(t, "nowHigh")
	}
	if (c.Target == "http-diff-src" || c.Target == "http-copy-src" || c.Target == "http-sumdiff-dest" || c.Target == "http-sumdiff-src") && rapid.IntRange(0, 4).Draw(t, "relayed") == 0 {
		c.Data = EncodeLayoutHeader(genSmallLayout(t))
		c.Alter = rapid.SampledFrom([]string{"all-archives", "next-archive", "until-minus-step", "until-minus-last-step", "from-plus-step", "now-minus-hour", "now-plus-last-step"}).Draw(t, "alter")
		c.Origin = "relayed-with-altered-query"
		return c
	}
	valid := genValidBytesAt(t, c.Target, c.Now)
	if (c.Target == "http-sum" || c.Target == "http-diff-src" || c.Target == "http-copy-src" || c.Target == "http-sumdiff-src") && rapid.IntRange(0, 3).Draw(t, "oddListing") == 0 {
		// the name listings are untrusted text too
		c.Listing = rapid.SampledFrom([]string{"\n", "\n\n", "\nitem1\n", "item1\n\nitem2\n", "item1\r\n\r\n", "\r\n", " \n", "/abs/path.wsp\n", "../../etc/x.wsp\n", "a/b.wsp\n\n", "a/b.wsp", "\x00\n", strings.Repeat("x", 70000) + "\n", strings.Repeat("a/b.wsp\n", 200)}).Draw(t, "listing")
		c.Data, c.Origin = valid, "valid+odd-listing"
		return c
	}
	if c.Target == "file" && rapid.IntRange(0, 19).Draw(t, "methodField") == 0 && len(valid) >= 12 {
		// a valid file whose aggregation-method or xFilesFactor FIELD holds a value no file can have: either Open
		// refuses it, or every later operation on the handle (propagation reads both) copes with it
		b := append([]byte(nil), valid...)
		if rapid.Bool().Draw(t, "methodNotXff") {
			binary.BigEndian.PutUint32(b[0:], rapid.SampledFrom([]uint32{0, 7, 8, 9, 10, 16, 255, 256, 1 << 16, 1 << 31, 1<<32 - 1}).Draw(t, "methodValue"))
		} else {
			binary.BigEndian.PutUint32(b[8:], rapid.SampledFrom([]uint32{0x7fc00000, 0xffc00000, 0x7f800000, 0xff800000, 0x40000000, 0xbf800000, 0x3f800001, 0x80000000, 0x00000001}).Draw(t, "xffBits"))
		}
		c.Data, c.Origin = b, "method-or-xff-field-damaged"
		return c
	}
	if c.Target == "file" && rapid.IntRange(0, 11).Draw(t, "maxRetField") == 0 && len(valid) >= 8 {
		// a valid file whose max-retention FIELD disagrees with its archive list
		b := append([]byte(nil), valid...)
		real := binary.BigEndian.Uint32(b[4:])
		v := rapid.SampledFrom([]uint32{real * 2, real + 1, real + 3600, real * 10, real / 2, real - 1, 1, 0x7fffffff}).Draw(t, "maxRetValue")
		binary.BigEndian.PutUint32(b[4:], v)
		c.Data, c.Origin = b, "max-retention-field-damaged"
		return c
	}
	if strings.HasPrefix(c.Target, "http-") && rapid.IntRange(0, 5).Draw(t, "oddStatus") == 0 {
		// what a proxy, a restarting or a hostile peer sends: any status, with an empty, short or complete body
		c.Status = rapid.SampledFrom([]int{201, 204, 206, 301, 304, 400, 401, 404, 408, 500, 502, 503, 504, 599}).Draw(t, "status")
		switch rapid.IntRange(0, 3).Draw(t, "statusBody") {
		case 0:
			c.Data = nil
		case 1:
			c.Data = []byte("\n")
		case 2:
			c.Data = valid
		default:
			c.Data = []byte("upstream timed out\n")
		}
		c.Origin = "odd-http-status"
		return c
	}
	if strings.HasPrefix(c.Target, "http-") && rapid.IntRange(0, 4).Draw(t, "lyingLength") == 0 {
		c.Claim = rapid.SampledFrom([]int64{int64(len(valid)) + 1, int64(len(valid)) + 4096, 1 << 26, 1 << 31, 1 << 40, 1 << 50, 1<<63 - 1}).Draw(t, "claim")
		c.Data, c.Origin = valid, "valid+lying-content-length"
		if rapid.Bool().Draw(t, "cutToo") && len(valid) > 0 {
			c.Data = valid[:rapid.IntRange(0, len(valid)-1).Draw(t, "cutAt")]
		}
		return c
	}
	if c.Target == "file" && c.Now < 1<<31-4 && rapid.IntRange(0, 29).Draw(t, "retentionBeyondClock") == 0 {
		// a step field set to a value that makes the (still valid) archive reach back beyond the epoch
		pts := uint32(rapid.IntRange(1, 3).Draw(t, "rbcPoints"))
		st := uint32(rapid.Int64Range((c.Now+int64(pts)-1)/int64(pts), (1<<31-1)/int64(pts)).Draw(t, "rbcStep"))
		h := EncodeLayoutHeader(Layout{Archives: []Arch{{1, 1}}, Method: rapid.IntRange(1, 6).Draw(t, "rbcMethod")})
		binary.BigEndian.PutUint32(h[4:], st*pts)
		binary.BigEndian.PutUint32(h[20:], st)
		binary.BigEndian.PutUint32(h[24:], pts)
		b := append(h, make([]byte, 12*pts)...)
		if rapid.Bool().Draw(t, "rbcPopulated") {
			binary.BigEndian.PutUint32(b[28:], uint32(alignDown(c.Now, int64(st))))
			binary.BigEndian.PutUint64(b[32:], math.Float64bits(1.5))
		}
		c.Data, c.Origin = b, "retention-beyond-clock"
		return c
	}
	if c.Target == "file" && rapid.IntRange(0, 14).Draw(t, "hugeStep") == 0 {
		// one archive, huge step x tiny count: retention around 2^31 .. 2^32; base interval aligned
		// (clock realistic and step <= 2^30: now + 2 steps stays below 2^32, zone Z7)
		c.Now = 1500000000 + rapid.Int64Range(0, 100000).Draw(t, "nowForHuge")
		step := int64(1) << uint(rapid.IntRange(26, 30).Draw(t, "stepLog"))
		pts := rapid.Int64Range(1, 9).Draw(t, "pts")
		b := make([]byte, 28+12*pts)
		copy(b, EncodeWspHeader(uint32(rapid.IntRange(1, 6).Draw(t, "method")), uint32(step*pts), 0.5, []WspArchive{{Offset: 28, Step: uint32(step), Points: uint32(pts)}}))
		binary.BigEndian.PutUint32(b[28:], uint32(alignDown(c.Now, step)))
		c.Data, c.Origin = b, "huge-step-single-archive"
		return c
	}
	if (c.Target == "file" || c.Target == "header") && rapid.IntRange(0, 11).Draw(t, "pairRule") == 0 {
		// a 3-5 archive header with consistent offsets, lengths and retention whose only fault is ONE pairwise
		// rule broken between two of the coarser archives (both still multiples of the finest step)
		s0 := rapid.SampledFrom([]int64{1, 2, 10, 60}).Draw(t, "s0")
		steps := []int64{s0, 2 * s0, 4 * s0, 8 * s0, 16 * s0}[:rapid.IntRange(3, 5).Draw(t, "pairArchives")]
		pts := make([]int64, len(steps))
		for i := range steps {
			pts[i] = 4 + int64(i)
		}
		i := rapid.IntRange(1, len(steps)-2).Draw(t, "brokenPair")
		switch rapid.IntRange(0, 3).Draw(t, "brokenRule") {
		case 0, 1: // step i+1 not a multiple of step i (5 s0 after 2 s0, 6 s0 after 4 s0, ...)
			steps[i+1] = steps[i]*2 + s0
			for j := i + 2; j < len(steps); j++ {
				steps[j] = steps[j-1] * 2
			}
		case 2: // retention not longer
			pts[i+1] = steps[i] * pts[i] / steps[i+1]
			if pts[i+1] < 1 {
				pts[i+1] = 1
			}
		default: // too few points to consolidate one coarser slot
			pts[i] = 1
		}
		var as []WspArchive
		off := int64(16 + 12*len(steps))
		for j := range steps {
			as = append(as, WspArchive{Offset: uint32(off), Step: uint32(steps[j]), Points: uint32(pts[j])})
			off += 12 * pts[j]
		}
		b := make([]byte, off)
		copy(b, EncodeWspHeader(uint32(rapid.IntRange(1, 6).Draw(t, "method")), uint32(steps[len(steps)-1]*pts[len(steps)-1]), 0.5, as))
		c.Data, c.Origin = b, "one-pair-rule-broken"
		return c
	}
	if (c.Target == "file" || c.Target == "header") && rapid.IntRange(0, 9).Draw(t, "bigCount") == 0 {
		c.Data, c.Origin = genBigCountFile(t), "big-archive-count"
		return c
	}
	if c.Target == "file" && rapid.IntRange(0, 2).Draw(t, "damageSlots") == 0 {
		// damage stored slot intervals (not the header): unaligned / shifted / extreme base intervals
		if h, err := ParseWspHeader(valid); err == nil && len(h.Archives) > 0 {
			b := append([]byte(nil), valid...)
			n := rapid.IntRange(1, 3).Draw(t, "damaged")
			for i := 0; i < n; i++ {
				ar := h.Archives[rapid.IntRange(0, len(h.Archives)-1).Draw(t, "damArch")]
				slot := uint32(0)
				if rapid.IntRange(0, 3).Draw(t, "otherSlot") == 0 {
					slot = uint32(rapid.IntRange(0, int(ar.Points)-1).Draw(t, "damSlot"))
				}
				off := ar.Offset + 12*slot
				if int(off)+4 > len(b) {
					continue
				}
				base := int64(alignDown(c.Now, int64(ar.Step)))
				var v int64
				switch rapid.IntRange(0, 4).Draw(t, "damKind") {
				case 0:
					v = base + rapid.Int64Range(1, int64(ar.Step)).Draw(t, "unaligned") // unaligned when step > 1
				case 1:
					v = base - rapid.Int64Range(1, 3*int64(ar.Step)).Draw(t, "before")
				case 2:
					v = int64(rapid.SampledFrom(extreme32).Draw(t, "extremeBase"))
				case 3:
					v = c.Now + rapid.Int64Range(-5, 5).Draw(t, "nearNow")
				default:
					v = int64(binary.BigEndian.Uint32(b[off:])) + rapid.Int64Range(-3, 3).Draw(t, "nudge")
				}
				binary.BigEndian.PutUint32(b[off:], uint32(v))
			}
			c.Data, c.Origin = b, "slot-interval-damaged"
			return c
		}
	}
	c.Data, c.Origin = mutateBytes(t, valid)
	return c
}

func c15Fixed() []C15Case {
	var out []C15Case
	// files whose step field was set to an extreme value and that still open: the retention reaches back beyond
	// the epoch as seen from the clock (defect D22: a fetch up to the far future panicked in makeslice)
	for _, st := range []uint32{0x7ffffff0, 0x7fffffff, 0x60000000, 1 << 30} {
		for _, pts := range []uint32{1, 2} {
			if uint64(st)*uint64(pts) > 1<<31-1 {
				continue
			}
			h := EncodeLayoutHeader(Layout{Archives: []Arch{{1, 1}}, Method: 1})
			binary.BigEndian.PutUint32(h[4:], st*pts)
			binary.BigEndian.PutUint32(h[20:], st)
			binary.BigEndian.PutUint32(h[24:], pts)
			out = append(out, C15Case{Target: "file", Data: append(h, make([]byte, 12*pts)...), Now: 1500000111, Origin: "fixed-retention-beyond-clock"})
		}
	}
	// the 28-byte header whose archive count x 12 wraps 32 bits, and neighbours
	for _, cnt := range []uint32{0x15555556, 0x15555555, 0x2AAAAAAB, 0xFFFFFFFF, 0x80000000, 0x10000000} {
		h := EncodeLayoutHeader(Layout{Archives: []Arch{{1, 60}}, Method: 1})
		binary.BigEndian.PutUint32(h[12:], cnt)
		out = append(out, C15Case{Target: "header", Data: h, Origin: "fixed-count"}, C15Case{Target: "file", Data: h, Now: 1500000000, Origin: "fixed-count"},
			C15Case{Target: "http-view", Data: h, Origin: "fixed-count"}, C15Case{Target: "http-view-raw", Data: h, Origin: "fixed-count"})
	}
	for _, f := range [][3]uint32{{0, 1<<32 - 1, 1}, {0, 1 << 31, 1}, {100, 50, 1}, {0, 100, 0}, {0, 100, 1 << 31}, {0, 1<<32 - 1, 1<<32 - 1}, {1 << 31, 0, 5}, {0, 1<<31 + 7, 1}} {
		out = append(out, C15Case{Target: "series", Data: encSeries(f[0], f[1], f[2], nil), Origin: "fixed-series"})
		l := Layout{Archives: []Arch{{1, 60}}, Method: 1}
		out = append(out, C15Case{Target: "http-view", Data: append(EncodeLayoutHeader(l), encSeries(f[0], f[1], f[2], nil)...), Origin: "fixed-series"})
	}
	for _, cnt := range extreme64 {
		b := make([]byte, 8)
		binary.BigEndian.PutUint64(b, cnt)
		out = append(out, C15Case{Target: "points", Data: b, Origin: "fixed-points"})
		l := Layout{Archives: []Arch{{1, 60}}, Method: 1}
		out = append(out, C15Case{Target: "http-view-raw", Data: append(EncodeLayoutHeader(l), b...), Origin: "fixed-points"})
	}
	// valid header, body missing / short (damaged file): sized by the header's point count
	for _, pts := range []int64{60, 100000, 30000000, 300000000} {
		l := Layout{Archives: []Arch{{1, pts}}, Method: 2}
		out = append(out, C15Case{Target: "file", Data: EncodeLayoutHeader(l), Now: 1500000000, Origin: "fixed-short-file"})
		out = append(out, C15Case{Target: "file", Data: append(EncodeLayoutHeader(l), make([]byte, 100)...), Now: 1500000000, Origin: "fixed-short-file"})
	}
	return out
}

func TestC15(t *testing.T) {
	defer func() {
		if c15Child != nil {
			c15Child.kill()
			c15Child = nil
		}
	}()
	RunProperty(t, Property[C15Case]{
		ID:          "C15",
		Rule:        "byte strings for 12 targets (every TakeFrom; Open on a file with those bytes followed by fetches, raw dumps, single and batch updates and Sync on a handle that opened; view / view-raw / sum against a hostile HTTP server replying with the bytes): 10% random, else a specification-encoded valid message mutated by truncation, bit flips, substitution of 32/64-bit fields by extreme constants (0, 1, 2^31-1, 2^31, 2^32-1, 0x15555556, values whose product with 8/12/16 wraps 32 or 64 bits) or body truncation; executed in a child process with RLIMIT_AS = 3 GiB. Violation: panic, child death (out of memory / stack overflow), or more than 1 MiB + 64 x input length bytes allocated (runtime/metrics /gc/heap/allocs:bytes). An input that gets no answer within 20 s is given to a fresh child for 90 s more: no answer again is a hang (violation); an answer then is slowness and is judged as usual. Two-sided commands (diff / copy / sum-diff with one side remote) ask for one archive or all; origin relayed-with-altered-query serves healthy files through a relay that alters the query (other archive selection, shifted window ends, other clock); files whose step field makes the retention exceed the clock (D22). Non-trivial: the input is at least as long as the decoder's fixed part (it reaches the size arithmetic). Distinct = hash of (target, bytes, clock).",
		Assumptions: []string{"allocation bound 1 MiB + 64 x input length (file targets: input length = file size)", "a hang is told from slowness by a second run of the same input in a fresh process with 90 s; only a timeout that cannot be confirmed stays inconclusive"},
		Gen:         genC15,
		Run:         runC15,
		Fixed:       c15Fixed,
	})
}

var fuzzTargets = []string{"header", "series", "points", "point", "value", "timestamp", "duration", "archiveinfo", "file", "http-view", "http-view-raw", "http-sum"}

// FuzzC15 is the coverage-guided variant (thorough tier): byte 0 selects the target, the rest is
// the hostile input; executed in-process with the same panic / allocation oracle.
func FuzzC15(f *testing.F) {
	l := Layout{Archives: []Arch{{1, 60}, {60, 30}}, Method: 1, XFF: 0.5}
	hdr := EncodeLayoutHeader(l)
	file := make([]byte, l.FileSize())
	copy(file, hdr)
	seeds := map[string][][]byte{
		"header":        {hdr, hdr[:16], hdr[:20]},
		"series":        {encSeries(1500000000, 1500000003, 1, []uint64{1, 2, 3}), encSeries(0, 1<<32-1, 1, nil), encSeries(0, 100, 1<<31, nil)},
		"points":        {encPoints([]uint32{1, 2}, []uint64{3, 4}), {0xff, 0xff, 0xff, 0xff, 0xff, 0xff, 0xff, 0xff}, {0x15, 0x55, 0x55, 0x55, 0x55, 0x55, 0x55, 0x56}},
		"file":          {file, file[:28], file[:100], hdr},
		"http-view":     {append(append([]byte(nil), hdr...), append(encSeries(1500000000, 1500000002, 1, []uint64{0, 0}), encSeries(1499999940, 1500000060, 60, []uint64{0, 0})...)...)},
		"http-view-raw": {append(append([]byte(nil), hdr...), append(encPoints([]uint32{1}, []uint64{2}), encPoints(nil, nil)...)...)},
		"http-sum":      {append(append([]byte(nil), hdr...), encSeries(1500000000, 1500000002, 1, []uint64{0, 0})...)},
	}
	for i, tname := range fuzzTargets {
		for _, s := range seeds[tname] {
			f.Add(append([]byte{byte(i)}, s...))
			for _, e := range []uint32{0x15555556, 1<<31 - 1, 1 << 31, 1<<32 - 1} {
				for off := 0; off+4 <= len(s) && off < 40; off += 4 {
					m := append([]byte{byte(i)}, s...)
					binary.BigEndian.PutUint32(m[1+off:], e)
					f.Add(m)
				}
			}
		}
		f.Add([]byte{byte(i)})
	}
	dir, _ := os.MkdirTemp(scratchBase(), "verif-fuzz15-")
	f.Cleanup(func() { os.RemoveAll(dir) })
	f.Fuzz(func(t *testing.T, in []byte) {
		if len(in) == 0 || len(in) > 1<<16 {
			return
		}
		c := C15Case{Target: fuzzTargets[int(in[0])%len(fuzzTargets)], Data: in[1:], Now: 1500000000, Origin: "native-fuzz"}
		resp := execHostile(hostileReq{Target: c.Target, Data: c.Data, Now: c.Now, Claim: c.Claim, Status: c.Status, Listing: c.Listing}, dir)
		var fs []Finding
		if resp.Panic != "" {
			fs = append(fs, Finding{Property: "C15", Key: "panic", Detail: fmt.Sprintf("target=%s %d bytes %s: panic in %s: %s", c.Target, len(c.Data), hexHead(c.Data, 48), resp.Where, resp.Panic)})
		} else if resp.Alloc > uint64(8*allocSlack+64*len(c.Data)) {
			// in-process the background allocations of the fuzz worker are included: wider slack
			fs = append(fs, Finding{Property: "C15", Key: "allocation", Detail: fmt.Sprintf("target=%s %d bytes %s: %d bytes allocated; last call %s", c.Target, len(c.Data), hexHead(c.Data, 48), resp.Alloc, resp.Where)})
		}
		if len(fs) > 0 {
			saveReplay("C15", c, fs)
			t.Fatalf("%s", fs[0])
		}
	})
}
