package props

import (
	"errors"
	"fmt"
	"math"
	"os"
	"path/filepath"
	"sort"
	"syscall"
	"testing"
	"time"

	wt "github.com/hnakamur/whispertool"
	"github.com/hnakamur/whispertool/cmd"
	"pgregory.net/rapid"
)

// C09 - diff reports exactly the slots that differ.
type DiffPair struct {
	// SrcLink: the source path is a symbolic link to the real file
	SrcLink bool      `json:"src_link,omitempty"`
	Rel     string    `json:"rel"`
	Src     *FileSpec `json:"src,omitempty"`  // nil: missing
	Dest    *FileSpec `json:"dest,omitempty"` // nil: missing
	// DestExtra is applied to a destination that starts as an exact copy of the source
	DestFromSrc bool        `json:"dest_from_src,omitempty"`
	DestExtra   []SlotWrite `json:"dest_extra,omitempty"`
}

type C09Case struct {
	Now       int64      `json:"now"`
	Pairs     []DiffPair `json:"pairs"`
	Pattern   string     `json:"pattern,omitempty"`
	DestRel   string     `json:"dest_rel,omitempty"`
	From      int64      `json:"from"`
	Until     int64      `json:"until"`
	ArchiveID int        `json:"archive_id"`
	Self      bool       `json:"self,omitempty"` // compare the source base with itself
	// Contended: real wall clock; another descriptor holds the destination's lock across a second
	// boundary while diff runs (an exact copy must still compare clean)
	Contended bool `json:"contended,omitempty"`
}

type diffLine struct {
	Arch     int
	T        int64
	Src, Dst float64
	Delta    float64
}

func parseDiffLines(recs []Record) ([]diffLine, string) {
	var out []diffLine
	for _, r := range recs {
		if _, ok := r["srcVal"]; !ok {
			continue
		}
		var d diffLine
		if _, err := fmt.Sscanf(r["archive"], "%d", &d.Arch); err != nil {
			return nil, "bad archive field: " + r["_line"]
		}
		t, ok := parseTime(r["t"])
		if !ok {
			return nil, "bad time field: " + r["_line"]
		}
		d.T = t
		var ok1, ok2, ok3 bool
		d.Src, ok1 = parseVal(r["srcVal"])
		d.Dst, ok2 = parseVal(r["destVal"])
		d.Delta, ok3 = parseVal(r["destMinusSrc"])
		if !ok1 || !ok2 || !ok3 {
			return nil, "bad value field: " + r["_line"]
		}
		out = append(out, d)
	}
	return out, ""
}

// expectedDiff computes E from two sets of per-archive fetch results. zeroAmbiguous lists the
// slots that differ only by the sign of zero (Z4): allowed but not required in the output.
func expectedDiff(l Layout, archiveID int, S, D []fetchResult) (E []diffLine, amb map[[2]int64]bool) {
	amb = map[[2]int64]bool{}
	for a := range l.Archives {
		if archiveID != -1 && archiveID != a {
			continue
		}
		s, d := S[a], D[a]
		if s.Nil || d.Nil || s.Err != nil || d.Err != nil {
			continue
		}
		for k, sv := range s.S.Values {
			dv := d.S.Values[k]
			tt := s.S.From + int64(k)*s.S.Step
			if (sv != sv && dv != dv) || sv == dv {
				if sv == 0 && dv == 0 && math.Signbit(sv) != math.Signbit(dv) {
					amb[[2]int64{int64(a), tt}] = true
				}
				continue
			}
			delta := math.NaN()
			if sv == sv && dv == dv {
				delta = dv - sv
			}
			E = append(E, diffLine{a, tt, sv, dv, delta})
		}
	}
	return
}

func sameDiffLines(got, want []diffLine, amb map[[2]int64]bool, negate bool) string {
	var g []diffLine
	for _, d := range got {
		if amb[[2]int64{int64(d.Arch), d.T}] {
			continue
		}
		g = append(g, d)
	}
	key := func(d diffLine) [2]int64 { return [2]int64{int64(d.Arch), d.T} }
	sort.SliceStable(g, func(i, j int) bool {
		if g[i].Arch != g[j].Arch {
			return g[i].Arch < g[j].Arch
		}
		return g[i].T < g[j].T
	})
	if len(g) != len(want) {
		return fmt.Sprintf("%d slots listed, %d slots differ", len(g), len(want))
	}
	for i := range g {
		w := want[i]
		ws, wd, wdelta := w.Src, w.Dst, w.Delta
		if negate {
			ws, wd = wd, ws
			if wdelta == wdelta {
				wdelta = ws2(wd, ws)
			}
		}
		if key(g[i]) != key(w) || !sameF(g[i].Src, ws) || !sameF(g[i].Dst, wd) || !sameF(g[i].Delta, wdelta) {
			return fmt.Sprintf("line %d: got archive %d t=%d src=%s dest=%s delta=%s, want archive %d t=%d src=%s dest=%s delta=%s", i, g[i].Arch, g[i].T, fstr(g[i].Src), fstr(g[i].Dst), fstr(g[i].Delta), w.Arch, w.T, fstr(ws), fstr(wd), fstr(wdelta))
		}
	}
	return ""
}

func ws2(dst, src float64) float64 { return dst - src }

// runC09Contended: diff of a file with its exact copy while the copy's lock is held elsewhere for more
// than a second of real time. Both sides must still be read at ONE clock value, so the result is clean.
func runC09Contended(c C09Case, ev *Evid) (fs []Finding) {
	if len(c.Pairs) == 2 {
		return runC09ContendedGlob(c, ev)
	}
	dir := scratchDir()
	defer os.RemoveAll(dir)
	now := time.Now().Unix()
	p := c.Pairs[0]
	spec := FileSpec{L: p.Src.L, Fill: minI64(p.Src.L.Archives[0].Points, 50), FillBase: 1}
	sp, dp := filepath.Join(dir, "src", p.Rel), filepath.Join(dir, "dest", p.Rel)
	if err := buildFile(sp, spec, now); err != nil {
		return []Finding{{Property: "C09", Key: "setup", Detail: err.Error()}}
	}
	b, _ := os.ReadFile(sp)
	os.MkdirAll(filepath.Dir(dp), 0755)
	os.WriteFile(dp, b, 0644)
	held, release := make(chan struct{}), make(chan struct{})
	go func() {
		fd, err := syscall.Open(dp, syscall.O_RDONLY, 0)
		if err == nil {
			syscall.Flock(fd, syscall.LOCK_EX)
		}
		close(held)
		time.Sleep(1300 * time.Millisecond)
		if err == nil {
			syscall.Close(fd)
		}
		close(release)
	}()
	<-held
	dc := &cmd.DiffCommand{SrcBase: filepath.Join(dir, "src"), SrcRelPath: p.Rel, DestBase: filepath.Join(dir, "dest"), ArchiveID: c.ArchiveID, TextOut: filepath.Join(dir, "out.txt")}
	var err error
	pm := guard(func() { err = dc.Execute() })
	<-release
	if pm != "" {
		return []Finding{{Property: "C09", Key: "diff-panic", Detail: "contended diff panicked: " + pm}}
	}
	if err != nil {
		return []Finding{{Property: "C09", Key: "contended-copy-not-clean", Detail: fmt.Sprintf("diff of a file (%s) with its exact copy, the copy's lock being held by another descriptor for 1.3 s: result %v\n%s", p.Src.L, err, tail(readText(filepath.Join(dir, "out.txt")), 400))}}
	}
	ev.Count(HashJSON(c)^uint64(now), true, "lock-contended-exact-copy")
	return nil
}

// runC09ContendedGlob: a glob diff (default window) over two files at the real clock. The first file's
// destination lock is held for 2.3 s, so the second file is compared more than two seconds later - and it
// differs only in a slot one second after the start of the run. Every file is compared up to ITS OWN now, so
// the difference must be found.
func runC09ContendedGlob(c C09Case, ev *Evid) (fs []Finding) {
	dir := scratchDir()
	defer os.RemoveAll(dir)
	l := c.Pairs[0].Src.L
	now := time.Now().Unix()
	spec := FileSpec{L: l, Fill: minI64(l.Archives[0].Points, 20), FillBase: 1}
	for _, side := range []string{"src", "dest"} {
		for _, n := range []string{"a.wsp", "b.wsp"} {
			if err := buildFile(filepath.Join(dir, side, n), spec, now); err != nil {
				return []Finding{{Property: "C09", Key: "setup", Detail: err.Error()}}
			}
		}
	}
	// the late slot: only in src/b.wsp, dated one step after the start (written by a writer two steps ahead)
	st := l.Archives[0].Step
	late := alignDown(now, st) + st
	if err := modifyFile(filepath.Join(dir, "src", "b.wsp"), []SlotWrite{{Arch: 0, T: late, V: 77}}, late+st); err != nil {
		return []Finding{{Property: "C09", Key: "setup", Detail: err.Error()}}
	}
	hold := time.Duration(2*st)*time.Second + 300*time.Millisecond
	held, release := make(chan struct{}), make(chan struct{})
	go func() {
		fd, err := syscall.Open(filepath.Join(dir, "dest", "a.wsp"), syscall.O_RDONLY, 0)
		if err == nil {
			syscall.Flock(fd, syscall.LOCK_EX)
		}
		close(held)
		time.Sleep(hold)
		if err == nil {
			syscall.Close(fd)
		}
		close(release)
	}()
	<-held
	out := filepath.Join(dir, "out.txt")
	dc := &cmd.DiffCommand{SrcBase: filepath.Join(dir, "src"), SrcRelPath: "*.wsp", DestBase: filepath.Join(dir, "dest"), ArchiveID: c.ArchiveID, TextOut: out}
	var err error
	pm := guard(func() { err = dc.Execute() })
	<-release
	if pm != "" {
		return []Finding{{Property: "C09", Key: "diff-panic", Detail: "contended glob diff panicked: " + pm}}
	}
	if !errors.Is(err, cmd.ErrDiffFound) {
		return []Finding{{Property: "C09", Key: "verdict-missed", Detail: fmt.Sprintf("glob diff (%s, default window) whose first file took %v: the second file differs in the slot t=%d (%d s after the start, well before that file was compared) but the result is %v\n%s", l, hold, late, late-now, err, tail(readText(out), 400))}}
	}
	ev.Count(HashJSON(c)^uint64(now), true, "lock-contended-glob-late-slot")
	return nil
}

func runC09(c C09Case, ev *Evid) (fs []Finding) {
	if c.Contended {
		return runC09Contended(c, ev)
	}
	add := func(key, format string, args ...interface{}) {
		fs = append(fs, Finding{Property: "C09", Key: key, Detail: fmt.Sprintf(format, args...)})
	}
	dir := scratchDir()
	defer os.RemoveAll(dir)
	srcBase, destBase := filepath.Join(dir, "src"), filepath.Join(dir, "dest")
	os.MkdirAll(srcBase, 0755)
	os.MkdirAll(destBase, 0755)
	now := c.Now
	until := effUntil(c.Until, now)
	destRelOf := func(i int) string {
		if c.Pattern == "" && c.DestRel != "" {
			return c.DestRel
		}
		return c.Pairs[i].Rel
	}
	for i, p := range c.Pairs {
		if p.Src != nil && p.SrcLink {
			target := filepath.Join(dir, "linked", fmt.Sprintf("t%d.wsp", i))
			if err := buildFile(target, *p.Src, now); err != nil {
				add("setup", "%v", err)
				return
			}
			os.MkdirAll(filepath.Dir(filepath.Join(srcBase, p.Rel)), 0755)
			if err := os.Symlink(target, filepath.Join(srcBase, p.Rel)); err != nil {
				add("setup", "%v", err)
				return
			}
		} else if p.Src != nil {
			if err := buildFile(filepath.Join(srcBase, p.Rel), *p.Src, now); err != nil {
				add("setup", "%v", err)
				return
			}
		}
		dp := filepath.Join(destBase, destRelOf(i))
		switch {
		case p.DestFromSrc && p.Src != nil:
			if err := buildFile(dp, *p.Src, now); err != nil {
				add("setup", "%v", err)
				return
			}
			if len(p.DestExtra) > 0 {
				if err := modifyFile(dp, p.DestExtra, now); err != nil {
					add("setup", "%v", err)
					return
				}
			}
		case p.Dest != nil:
			if err := buildFile(dp, *p.Dest, now); err != nil {
				add("setup", "%v", err)
				return
			}
		}
	}
	if c.Self {
		destBase = srcBase
	}
	run := func(sb, db string, tag string) (error, []Record, bool) {
		out := filepath.Join(dir, "diff-"+tag+".txt")
		dc := &cmd.DiffCommand{SrcBase: sb, DestBase: db, From: wt.Timestamp(c.From), Until: wt.Timestamp(c.Until), ArchiveID: c.ArchiveID, TextOut: out}
		if c.Pattern != "" {
			dc.SrcRelPath = c.Pattern
		} else {
			dc.SrcRelPath = c.Pairs[0].Rel
			dc.DestRelPath = c.DestRel
			if tag == "swapped" && c.DestRel != "" {
				dc.SrcRelPath, dc.DestRelPath = c.DestRel, c.Pairs[0].Rel
			}
		}
		err, pm := runCommand(now, dc)
		if pm != "" {
			add("diff-panic", "diff (%s) now=%d from=%d until=%d archive=%d pattern=%q panicked: %s", tag, now, c.From, c.Until, c.ArchiveID, c.Pattern, pm)
			return nil, nil, false
		}
		return err, parseLTSV(readText(out)), true
	}
	err, recs, ok := run(srcBase, destBase, "fwd")
	if !ok {
		return
	}
	desc := fmt.Sprintf("diff now=%d from=%d until=%d archive=%d pattern=%q self=%v", now, c.From, c.Until, c.ArchiveID, c.Pattern, c.Self)

	// expected per matched file, in the command's order (glob order = sorted paths)
	type fileExp struct {
		rel           string
		missing       bool
		layoutDiffers bool
		E             []diffLine
		amb           map[[2]int64]bool
	}
	var exps []fileExp
	idxs := make([]int, 0, len(c.Pairs))
	for i, p := range c.Pairs {
		if c.Pattern != "" && p.Src == nil {
			continue // not matched by the glob
		}
		idxs = append(idxs, i)
	}
	sort.Slice(idxs, func(a, b int) bool { return c.Pairs[idxs[a]].Rel < c.Pairs[idxs[b]].Rel })
	anyDiff, anyErr := false, false
	nanVsValue, lastBit := 0, 0
	for _, i := range idxs {
		p := c.Pairs[i]
		fe := fileExp{rel: p.Rel}
		sp, dp := filepath.Join(srcBase, p.Rel), filepath.Join(destBase, destRelOf(i))
		if c.Self {
			dp = filepath.Join(srcBase, destRelOf(i))
		}
		if !fileExists(sp) || !fileExists(dp) {
			fe.missing = true
			anyDiff = true
			exps = append(exps, fe)
			continue
		}
		sl := p.Src.L
		dl := sl
		if !c.Self && !p.DestFromSrc && p.Dest != nil {
			dl = p.Dest.L
		}
		if !layoutsEqualArchives(sl, dl) {
			fe.layoutDiffers = true
			anyErr = true
			exps = append(exps, fe)
			break // the command stops at the first error
		}
		S, _ := readArchives(sp, sl, c.From, until, now)
		D, _ := readArchives(dp, sl, c.From, until, now)
		fe.E, fe.amb = expectedDiff(sl, c.ArchiveID, S, D)
		for _, d := range fe.E {
			if (d.Src != d.Src) != (d.Dst != d.Dst) {
				nanVsValue++
			} else if d.Src == d.Src && math.Abs(d.Dst-d.Src) <= math.Abs(d.Src)*1e-15 {
				lastBit++
			}
		}
		if len(fe.E) > 0 {
			anyDiff = true
		}
		exps = append(exps, fe)
	}
	// verdict
	switch {
	case anyErr:
		if err == nil || errors.Is(err, cmd.ErrDiffFound) {
			add("layout-mismatch-verdict", "%s: files with unequal layouts: result %v, want an error other than 'diff found'", desc, err)
			return
		}
		ev.Count(HashJSON(c), true, "unequal-layouts")
		return nil
	case anyDiff:
		if !errors.Is(err, cmd.ErrDiffFound) {
			add("verdict-missed", "%s: a difference exists (or a side is missing) but the result is %v", desc, err)
			return
		}
	default:
		ambTotal := 0
		for _, fe := range exps {
			ambTotal += len(fe.amb)
		}
		if err != nil && errors.Is(err, cmd.ErrDiffFound) && ambTotal > 0 {
			// Z4: the only candidate differences are +0 vs -0 slots: either verdict is accepted
			ev.Class("Z4-signed-zero-only")
			break
		}
		if err != nil {
			add("verdict-spurious", "%s: no slot differs but the result is %v\n%s", desc, err, tail(readText(filepath.Join(dir, "diff-fwd.txt")), 500))
			return
		}
	}
	// listing: split the records per file at the now:...srcRel: headers
	var groups [][]Record
	for _, r := range recs {
		if _, ok := r["srcRel"]; ok {
			if tv, ok2 := parseTime(r["now"]); !ok2 || tv != now {
				add("harness-clock", "command ran at %q, harness clock %d", r["now"], now)
				return
			}
			groups = append(groups, nil)
			continue
		}
		if len(groups) == 0 {
			continue // msg:start line
		}
		if _, ok := r["msg"]; ok {
			continue
		}
		groups[len(groups)-1] = append(groups[len(groups)-1], r)
	}
	if len(groups) != len(exps) {
		add("files-compared", "%s: %d files were compared, %d expected", desc, len(groups), len(exps))
		return
	}
	for gi, fe := range exps {
		if fe.missing {
			found := false
			for _, r := range groups[gi] {
				if _, ok := r["err"]; ok {
					found = true
				}
			}
			if !found {
				add("missing-not-reported", "%s: file %s is missing on one side but no err: record was printed", desc, fe.rel)
				return
			}
			continue
		}
		lines, perr := parseDiffLines(groups[gi])
		if perr != "" {
			add("listing-unparsable", "%s: %s", desc, perr)
			return
		}
		if d := sameDiffLines(lines, fe.E, fe.amb, false); d != "" {
			add("listing", "%s: file %s: %s", desc, fe.rel, d)
			return
		}
	}
	// symmetry (single-file mode, both sides present)
	if c.Pattern == "" && len(exps) == 1 && !exps[0].missing && !c.Self {
		err2, recs2, ok := run(destBase, srcBase, "swapped")
		if !ok {
			return
		}
		if (err2 == nil) != (err == nil) || (err2 != nil && !errors.Is(err2, cmd.ErrDiffFound)) {
			add("asymmetric-verdict", "%s: forward result %v, swapped result %v", desc, err, err2)
			return
		}
		lines2, perr := parseDiffLines(recs2)
		if perr != "" {
			add("listing-unparsable", "%s (swapped): %s", desc, perr)
			return
		}
		if d := sameDiffLines(lines2, exps[0].E, exps[0].amb, true); d != "" {
			add("asymmetric-listing", "%s (swapped): %s", desc, d)
			return
		}
	}
	mixed := false
	if len(exps) > 1 {
		clean, dirty := 0, 0
		for _, fe := range exps {
			if fe.missing || len(fe.E) > 0 {
				dirty++
			} else {
				clean++
			}
		}
		mixed = clean > 0 && dirty > 0
	}
	nontrivial := nanVsValue > 0 || lastBit > 0 || mixed
	cls := []string{}
	if anyDiff {
		cls = append(cls, "difference-exists")
	} else {
		cls = append(cls, "clean")
	}
	if nanVsValue > 0 {
		cls = append(cls, "nan-vs-value")
	}
	if lastBit > 0 {
		cls = append(cls, "last-bit-difference")
	}
	if mixed {
		cls = append(cls, "glob-mixed-verdicts")
	}
	if c.Pattern != "" {
		cls = append(cls, "glob")
	}
	if c.Self {
		cls = append(cls, "self")
	}
	for _, fe := range exps {
		if fe.missing {
			cls = append(cls, "side-missing")
		}
	}
	if c.ArchiveID >= 0 {
		cls = append(cls, "single-archive")
	}
	ev.Count(HashJSON(c), nontrivial, cls...)
	if nontrivial && ev.WantSample() && len(c.Pairs) == 1 && c.Pairs[0].Src != nil && len(c.Pairs[0].Src.Writes) < 10 {
		ev.Sample(c)
	}
	return nil
}

func genDiffPair(t *rapid.T, l Layout, now int64, rel string, glob bool) DiffPair {
	p := DiffPair{Rel: rel}
	src := genSpec(t, l, now, valGeneral, 10)
	p.Src = &src
	kind := rapid.IntRange(0, 11).Draw(t, "destKind")
	switch {
	case kind <= 1: // exact copy
		p.DestFromSrc = true
	case kind <= 6: // copy with a few perturbations
		p.DestFromSrc = true
		n := rapid.IntRange(1, 4).Draw(t, "perturbations")
		for i := 0; i < n; i++ {
			if len(src.Writes) > 0 && rapid.IntRange(0, 2).Draw(t, "fromSrc") > 0 {
				w := src.Writes[rapid.IntRange(0, len(src.Writes)-1).Draw(t, "which")]
				v := float64(w.V)
				switch rapid.IntRange(0, 3).Draw(t, "how") {
				case 0:
					v = math.Nextafter(v, math.Inf(1))
				case 1:
					v = math.NaN()
				case 2:
					if v == 0 {
						v = math.Copysign(0, -1)
					} else {
						v = -v
					}
				default:
					v = genValue(t)
				}
				p.DestExtra = append(p.DestExtra, SlotWrite{Arch: w.Arch, T: w.T, V: F64(v)})
			} else {
				a := rapid.IntRange(0, len(l.Archives)-1).Draw(t, "pa")
				age := rapid.Int64Range(0, minI64(l.Archives[a].Ret(), l.MaxRet())-1).Draw(t, "page")
				p.DestExtra = append(p.DestExtra, SlotWrite{Arch: a, T: now - age, V: F64(genValue(t))})
			}
		}
	case kind <= 8: // unrelated content, same layout
		d := genSpec(t, l, now, valGeneral, 10)
		p.Dest = &d
	case kind == 9: // different layout: unrelated, or only a longer last archive (invisible in narrow windows)
		l2 := genCLILayout(t)
		if rapid.Bool().Draw(t, "subtle") {
			l2 = subtleLayoutVariant(l)
		}
		d := FileSpec{L: l2, Writes: genWrites(t, l2, now, valGeneral, 10)}
		p.Dest = &d
	case kind == 10: // destination missing
	default: // source missing (single-file mode only)
		if !glob {
			d := src
			p.Dest = &d
			p.Src = nil
		} else {
			p.DestFromSrc = true
		}
	}
	return p
}

func genC09(t *rapid.T) C09Case {
	l := genCLILayout(t)
	now := genNowRealistic(t, l)
	c := C09Case{Now: now, ArchiveID: -1}
	if rapid.IntRange(0, 3).Draw(t, "glob") == 0 {
		n := rapid.IntRange(2, 4).Draw(t, "files")
		for i := 0; i < n; i++ {
			c.Pairs = append(c.Pairs, genDiffPair(t, l, now, relNames[1+i], true))
			c.Pairs[i].SrcLink = rapid.IntRange(0, 4).Draw(t, "srcLink") == 0
		}
		c.Pattern = rapid.SampledFrom([]string{"*/*.wsp", "m?/*.wsp", "m1/*.wsp"}).Draw(t, "pattern")
		var kept []DiffPair
		for _, p := range c.Pairs {
			if ok, _ := filepath.Match(c.Pattern, p.Rel); ok {
				kept = append(kept, p)
			}
		}
		if len(kept) == 0 {
			kept = c.Pairs[:1]
			c.Pattern = "m1/?.wsp"
		}
		c.Pairs = kept
	} else {
		c.Pairs = []DiffPair{genDiffPair(t, l, now, rapid.SampledFrom(relNames).Draw(t, "rel"), false)}
		if rapid.IntRange(0, 4).Draw(t, "rename") == 0 {
			c.DestRel = "other/" + c.Pairs[0].Rel
		}
		if c.Pairs[0].Src != nil && rapid.IntRange(0, 9).Draw(t, "self") == 0 {
			c.Self = true
			c.DestRel = ""
		}
	}
	c.From, c.Until = genCLIWindow(t, l, now)
	if rapid.IntRange(0, 2).Draw(t, "oneArchive") == 0 {
		c.ArchiveID = rapid.IntRange(0, len(l.Archives)-1).Draw(t, "archive")
	}
	return c
}

func TestC09(t *testing.T) {
	RunProperty(t, Property[C09Case]{
		NoteCases:   true,
		ID:          "C09",
		Rule:        "rapid-generated diff invocations at a controlled clock: destination = exact copy, copy with 1-4 perturbations (last-bit change, NaN-vs-value, sign flip / -0, new value, extra slot in any archive), unrelated content, different layout, missing; source missing; self-comparison; single file (optionally under another name) or glob over 2-4 files; windows and archive selection as in C08. Oracle: E = slots of the selected archives' windows whose values differ (two NaNs equal; +0/-0 slots allowed but not required), from library fetches at the same clock; verdict 'diff found' iff E non-empty or a side missing; the listed lines (archive, time, srcVal, destVal, destMinusSrc parsed back bit-exactly) equal E; swapped sides give the same verdict and mirrored lines with negated difference; unequal layouts => another error; glob: one header record per matched file and OR of the verdicts. Two fixed cases run on the real clock: diff of a file with its exact copy while the copy's lock is held by another descriptor for 1.3 s (both sides must be read at one clock value). Non-trivial: a NaN-vs-value or last-bit difference in E, or a glob run with both clean and differing files. Distinct = hash of the case.",
		Assumptions: []string{"Z4: slots differing only in the sign of zero are neither required nor forbidden in the listing", "patterns that match nothing are C12's subject"},
		Gen:         genC09,
		Run:         runC09,
		Fixed: func() []C09Case {
			l1 := Layout{Archives: []Arch{{1, 60}, {60, 60}}, Method: 1, XFF: 0.5}
			l2 := Layout{Archives: []Arch{{1, 30}}, Method: 2}
			return []C09Case{
				{Contended: true, ArchiveID: -1, Pairs: []DiffPair{{Rel: "a.wsp", Src: &FileSpec{L: l1}}}},
				{Contended: true, ArchiveID: 0, Pairs: []DiffPair{{Rel: "m1/x.wsp", Src: &FileSpec{L: l2}}}},
				{Contended: true, ArchiveID: -1, Pairs: []DiffPair{{Rel: "a.wsp", Src: &FileSpec{L: l1}}, {Rel: "b.wsp", Src: &FileSpec{L: l1}}}},
			}
		},
	})
}
