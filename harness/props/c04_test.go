package props

import (
	"fmt"
	"math"
	"os"
	"path/filepath"
	"testing"
	"time"

	wt "github.com/hnakamur/whispertool"

	"pgregory.net/rapid"
)

// C04 - fetch window contract: the shape depends only on layout, window and clock.
type C04Case struct {
	L       Layout   `json:"layout"`
	Now     int64    `json:"now"`
	Windows []Window `json:"windows"`
	// WriteOrder: archives written one after another (named single update at `now`); the
	// windows are re-checked after each write, so every window is seen on an empty file, with
	// only other archives written, and with its own archive written.
	WriteOrder []int `json:"write_order"`
	// WriteAge: the writes carry the timestamp now - WriteAge (clamped into each archive's retention), so the
	// ring seam (the slot of the base interval) lies anywhere in the window
	WriteAge int64 `json:"write_age,omitempty"`
	// ReaderLag: after the writes every window is fetched once more at the clock now - ReaderLag (a reader whose
	// clock is behind or, when negative, ahead of the writer's): the shape depends on the clock it is given
	ReaderLag int64 `json:"reader_lag,omitempty"`
}

func runC04(c C04Case, ev *Evid) (fs []Finding) {
	dir := scratchDir()
	defer os.RemoveAll(dir)
	db, err := createWT(filepath.Join(dir, "f.wsp"), c.L)
	if err != nil {
		return []Finding{{Property: "C04", Key: "create-error", Detail: fmt.Sprintf("Create(%s): %v", c.L, err)}}
	}
	defer db.Close()
	nontrivial := false
	var cls []string
	clock := c.Now
	check := func(state string) []Finding {
		for _, w := range c.Windows {
			sh := c.L.Shape(w.ID, w.From, w.Until, clock)
			r := fetchWT(db, w.ID, w.From, w.Until, clock)
			ctx := fmt.Sprintf("%s: fetch(id=%d from=%d until=%d now=%d) layout %s", state, w.ID, w.From, w.Until, clock, c.L)
			if f := compareFetch("C04", ctx, r, sh, nil); len(f) > 0 {
				if w.ID == -1 && clock-w.From >= 1<<31 {
					for i := range f {
						f[i].Key = "best-archive-int32-wrap"
					}
				}
				return f
			}
			if sh.Err && w.From <= w.Until && r.Err != nil {
				// the statement names the error for an out-of-range id only loosely; class only
				_ = r
			}
		}
		return nil
	}
	if f := check("empty file"); len(f) > 0 {
		return f
	}
	// wall-clock mode (now = 0, the documented mock point whispertool.Now): the clock ticks one second
	// per reading; the shape must be the contract's shape at ONE of the instants handed out - a fetch
	// that mixes two readings matches neither.
	wallClock := func(state string) []Finding {
		if c.L.Archives[0].Points > 2000 {
			return nil // (long archives are there for the window length; the clock modes are covered by the small ones)
		}
		for _, w := range c.Windows {
			var reads []int64
			saved := wt.Now
			wt.Now = func() time.Time {
				v := c.Now + int64(len(reads))
				reads = append(reads, v)
				return time.Unix(v, 0)
			}
			r := fetchWT(db, w.ID, w.From, w.Until, 0)
			wt.Now = saved
			if len(reads) == 0 {
				reads = []int64{c.Now}
			}
			var first []Finding
			ok := false
			for _, v := range reads {
				f := compareFetch("C04", fmt.Sprintf("%s: wall-clock fetch(id=%d from=%d until=%d) with the clock ticking from %d (%d readings) layout %s", state, w.ID, w.From, w.Until, c.Now, len(reads), c.L), r, c.L.Shape(w.ID, w.From, w.Until, v), nil)
				if len(f) == 0 {
					ok = true
					break
				}
				if first == nil {
					first = f
				}
			}
			if !ok {
				for i := range first {
					first[i].Key = "wall-clock-" + first[i].Key
				}
				return first
			}
		}
		return nil
	}
	if f := wallClock("empty file"); len(f) > 0 {
		return f
	}
	for _, a := range c.WriteOrder {
		age := c.WriteAge
		if age >= c.L.Archives[a].Ret() {
			age = c.L.Archives[a].Ret() - 1
		}
		if err, pm := updateWT(db, a, c.Now-age, 1.5, c.Now); err != nil || pm != "" {
			return []Finding{{Property: "C04", Key: "setup-update", Detail: fmt.Sprintf("update archive %d at now-%d failed: %v %s", a, age, err, pm)}}
		}
		if f := check(fmt.Sprintf("after writing archive %d", a)); len(f) > 0 {
			return f
		}
		if f := wallClock(fmt.Sprintf("after writing archive %d", a)); len(f) > 0 {
			return f
		}
	}
	if c.ReaderLag != 0 {
		clock = c.Now - c.ReaderLag
		if f := check(fmt.Sprintf("reader clock %d s behind the writer's (%d)", c.ReaderLag, c.Now)); len(f) > 0 {
			return f
		}
		clock = c.Now
		cls = append(cls, "reader-clock-differs")
	}
	for _, w := range c.Windows {
		sh := c.L.Shape(w.ID, w.From, w.Until, c.Now)
		switch {
		case sh.Err:
			cls = append(cls, "error-window")
			nontrivial = true
			continue
		case sh.Nil:
			cls = append(cls, "nil-window")
		}
		a := c.L.Archives[sh.Archive]
		oldest := c.Now - a.Ret()
		if w.From <= c.Now && w.Until >= c.Now {
			cls = append(cls, "straddles-now")
			nontrivial = true
		}
		if w.From <= oldest && w.Until >= oldest {
			cls = append(cls, "straddles-retention-edge")
			nontrivial = true
		}
		if !sh.Nil && (w.From == w.Until || w.Until-w.From < a.Step) {
			cls = append(cls, "degenerate-or-substep")
			nontrivial = true
		}
		if w.ID == -1 {
			for _, ar := range c.L.Archives {
				if d := c.Now - w.From - ar.Ret(); d >= -1 && d <= 1 {
					cls = append(cls, "best-at-retention-boundary")
					nontrivial = true
				}
			}
		}
	}
	if len(c.WriteOrder) < len(c.L.Archives) {
		cls = append(cls, "some-archive-never-written")
		nontrivial = true
	}
	if c.Now >= 1<<31 {
		cls = append(cls, "epoch-high")
	}
	ev.Count(HashJSON(c), nontrivial, cls...)
	if nontrivial && ev.WantSample() {
		ev.Sample(c)
	}
	return nil
}

func TestC04(t *testing.T) {
	RunProperty(t, Property[C04Case]{
		ID:          "C04",
		Rule:        "rapid-generated (layout, clock, 6 windows incl. from=0, from>until, degenerate, sub-step, straddling now / a retention edge, ids -2..k+1 and 'best') checked against the contract computed in exact arithmetic, on the empty file and again after each archive of a generated write order has been written; every window is also fetched in wall-clock mode (now = 0) with whispertool.Now mocked to tick one second per reading, where the shape must be the contract's at one of the instants handed out (so each window is seen with its archive never written, with only other archives written, and written). Non-trivial: some window straddles now or a retention edge, is degenerate/sub-step, must fail, uses 'best' within +-1 of a retention, or some archive stays never written. Distinct = hash of the case.",
		Assumptions: []string{"zone Z7 clocks (now > max retention + coarsest step; below 2^32 - 2 coarse steps)"},
		Gen: func(t *rapid.T) C04Case {
			o := defaultLayoutOpts()
			o.HugePct = 1
			l := genLayout(t, o)
			c := C04Case{L: l, Now: genNow(t, l)}
			for i := 0; i < 6; i++ {
				c.Windows = append(c.Windows, genWindow(t, l, c.Now, true))
			}
			if l.Archives[0].Points > 2000 {
				// long archives: whole-retention windows (longer than any bulk-read buffer), for each archive
				for a, ar := range l.Archives {
					c.Windows = append(c.Windows, Window{ID: a, From: c.Now - ar.Ret(), Until: c.Now}, Window{ID: a, From: c.Now - ar.Ret() + rapid.Int64Range(0, 3*ar.Step).Draw(t, "fullFromD"), Until: c.Now - rapid.Int64Range(0, 3*ar.Step).Draw(t, "fullUntilD")})
				}
			}
			if rapid.Bool().Draw(t, "writeAged") {
				c.WriteAge = rapid.Int64Range(0, l.MaxRet()-1).Draw(t, "writeAge")
			}
			if rapid.IntRange(0, 2).Draw(t, "readerLag") == 0 {
				coarse := l.Archives[len(l.Archives)-1].Step
				c.ReaderLag = rapid.Int64Range(-2*coarse, 2*coarse).Draw(t, "lag")
				// stay inside zone Z7 (clock >= maxRetention + coarsest step, two steps below 2^32)
				if c.Now-c.ReaderLag < l.MaxRet()+coarse+1 || c.Now-c.ReaderLag > int64(math.MaxUint32)-2*coarse-1 {
					c.ReaderLag = 0
				}
			}
			ids := make([]int, len(l.Archives))
			for i := range ids {
				ids[i] = i
			}
			perm := rapid.Permutation(ids).Draw(t, "writeOrder")
			n := rapid.IntRange(0, len(ids)).Draw(t, "written")
			c.WriteOrder = perm[:n]
			return c
		},
		Run: runC04,
	})
}
