package props

import (
	"bytes"
	"fmt"
	"math"
	"os"
	"path/filepath"
	"strconv"
	"strings"
	"testing"

	wt "github.com/hnakamur/whispertool"
	"pgregory.net/rapid"
)

// C07 - layout validation: exactly the well-formed archive lists are accepted, by every entry point.
type C07Case struct {
	List    []RawArch `json:"list"`
	Method  int       `json:"method"`
	XFFBits uint32    `json:"xff_bits"`
	Note    string    `json:"note,omitempty"`
	// Reshape: also feed the list through NewHeader as archives that were already laid out in another list
	Reshape string `json:"reshape,omitempty"`
}

var methodNames = []string{"AggregationMethod(0)", "average", "sum", "last", "max", "min", "first", "mix", "percentile", "AggregationMethod(9)"}

func xffValid(x float32) bool { return x >= 0 && x <= 1 } // false for NaN, +-Inf; true for -0

func printDurExact(v int64) string { return strconv.FormatInt(v, 10) + "s" }

func runC07(c C07Case, ev *Evid) (fs []Finding) {
	add := func(key, format string, args ...interface{}) {
		fs = append(fs, Finding{Property: "C07", Key: key, Detail: fmt.Sprintf("list=%v method=%d xff=%v(bits %08x): ", c.List, c.Method, math.Float32frombits(c.XFFBits), c.XFFBits) + fmt.Sprintf(format, args...)})
	}
	xff := math.Float32frombits(c.XFFBits)
	lv, why := ValidLayout(c.List)
	methodOK := c.Method >= 1 && c.Method <= 6
	xffOK := xffValid(xff)
	if lv == Grey {
		// Z3: no verdict of its own, but "all entry points agree with each other" still holds there
		if !methodOK || !xffOK {
			ev.Discard("Z3-representability-grey-zone")
			return nil
		}
		got := map[string]bool{}
		var al wt.ArchiveInfoList
		var parts []string
		printable := true
		for _, a := range c.List {
			al = append(al, wt.NewArchiveInfo(wt.Duration(a.Step), uint32(a.Points)))
			if a.Step*a.Points > math.MaxInt32 {
				printable = false // the text syntax must refuse values beyond 31 bits (C19): not comparable
			}
			parts = append(parts, printDurExact(a.Step)+":"+printDurExact(a.Step*a.Points))
		}
		var e1, e2, e3 error
		if pm := guard(func() { _, e1 = wt.NewHeader(wt.AggregationMethod(c.Method), xff, al) }); pm != "" {
			add("newheader-panic", "NewHeader panicked: %s", pm)
			return
		}
		got["NewHeader"] = e1 == nil
		if printable {
			if pm := guard(func() { _, e2 = wt.ParseArchiveInfoList(strings.Join(parts, ",")) }); pm != "" {
				add("parse-panic", "ParseArchiveInfoList(%q) panicked: %s", strings.Join(parts, ","), pm)
				return
			}
			got["ParseArchiveInfoList"] = e2 == nil
		}
		var was []WspArchive
		off := int64(16 + 12*len(c.List))
		for _, a := range c.List {
			was = append(was, WspArchive{Offset: uint32(off), Step: uint32(a.Step), Points: uint32(a.Points)}) // every offset FIELD fits in the grey zone
			off += 12 * a.Points
		}
		last := c.List[len(c.List)-1]
		hb := EncodeWspHeader(uint32(c.Method), uint32(last.Step*last.Points), xff, was)
		h2 := &wt.Header{}
		if pm := guard(func() { _, e3 = h2.TakeFrom(hb) }); pm != "" {
			add("takefrom-panic", "Header.TakeFrom panicked: %s", pm)
			return
		}
		got["Header.TakeFrom"] = e3 == nil
		for k, v := range got {
			if v != got["NewHeader"] {
				add("entry-points-disagree", "32-bit grey zone (no verdict of its own): NewHeader accepted=%v but %s accepted=%v (errors: %v / %v / %v)", got["NewHeader"], k, v, e1, e2, e3)
				return
			}
		}
		ev.Count(HashJSON(c), true, "Z3-grey-zone-entry-points-agree", "grey-accepted="+strconv.FormatBool(got["NewHeader"]))
		return nil
	}
	wantOK := lv == Valid && methodOK && xffOK
	reason := why
	if lv == Valid && !methodOK {
		reason = "method"
	} else if lv == Valid && !xffOK {
		reason = "xff"
	}
	verdicts := map[string]bool{}

	// ---- entry point 1: NewHeader / Create (needs steps that fit the Go types)
	goTypes := true
	for _, a := range c.List {
		if a.Step > math.MaxInt32 || a.Step < math.MinInt32 || a.Points < 0 || a.Points > math.MaxUint32 {
			goTypes = false
		}
	}
	var hdr *wt.Header
	if goTypes {
		var al wt.ArchiveInfoList
		for _, a := range c.List {
			al = append(al, wt.NewArchiveInfo(wt.Duration(a.Step), uint32(a.Points)))
		}
		var err error
		if pm := guard(func() { hdr, err = wt.NewHeader(wt.AggregationMethod(c.Method), xff, al) }); pm != "" {
			add("newheader-panic", "NewHeader panicked: %s", pm)
			return
		}
		verdicts["NewHeader"] = err == nil
		if (err == nil) != wantOK {
			add("newheader-verdict", "NewHeader accepted=%v, rules say valid=%v (%s) err=%v", err == nil, wantOK, reason, err)
			return
		}
	}

	// ---- entry point 1b: the same list built from archives that already went through a layout (a parsed
	// list / a header's list, then re-sliced or extended): the verdict must not depend on that history
	stepsPositive := true
	for _, a := range c.List {
		if a.Step <= 0 || a.Points <= 0 {
			stepsPositive = false
		}
	}
	if goTypes && stepsPositive && c.Reshape != "" && len(c.List) >= 1 {
		donor := []RawArch{{Step: 1, Points: 7}}
		donor = append(donor, c.List...)
		ok := true
		for i := 0; i+1 < len(donor); i++ {
			a, b := donor[i], donor[i+1]
			if !(a.Step < b.Step && b.Step%a.Step == 0 && a.Step*a.Points < b.Step*b.Points && a.Points >= b.Step/a.Step) {
				ok = false
			}
		}
		if v, _ := ValidLayout(donor); ok && v == Valid {
			var dl wt.ArchiveInfoList
			for _, a := range donor {
				dl = append(dl, wt.NewArchiveInfo(wt.Duration(a.Step), uint32(a.Points)))
			}
			if hd, err := wt.NewHeader(wt.Sum, 0, dl); err == nil {
				var derived wt.ArchiveInfoList
				switch c.Reshape {
				case "tail-of-header-list":
					derived = hd.ArchiveInfoList()[1:]
				default: // copy of the tail elements
					derived = append(wt.ArchiveInfoList(nil), hd.ArchiveInfoList()[1:]...)
				}
				var err2 error
				if pm := guard(func() { _, err2 = wt.NewHeader(wt.AggregationMethod(c.Method), xff, derived) }); pm != "" {
					add("newheader-panic", "NewHeader on a re-sliced list panicked: %s", pm)
					return
				}
				if (err2 == nil) != wantOK {
					add("newheader-verdict-reshaped", "NewHeader on the same archives taken from another header's list (%s) accepted=%v, rules say valid=%v (%s) err=%v", c.Reshape, err2 == nil, wantOK, reason, err2)
					return
				}
			}
		}
	}
	if goTypes && c.Reshape == "parsed-prefix" && lv == Valid && len(c.List) >= 2 {
		var parts []string
		for _, a := range c.List {
			if a.Step*a.Points > math.MaxInt32 {
				parts = nil
				break
			}
			parts = append(parts, printDurExact(a.Step)+":"+printDurExact(a.Step*a.Points))
		}
		if parts != nil {
			if pl, err := wt.ParseArchiveInfoList(strings.Join(parts, ",")); err == nil {
				// every prefix / suffix of a valid list is a valid list
				for _, sub := range []wt.ArchiveInfoList{pl[:len(pl)-1], pl[1:]} {
					var err2 error
					if pm := guard(func() { _, err2 = wt.NewHeader(wt.Sum, 0.5, append(wt.ArchiveInfoList(nil), sub...)) }); pm != "" || err2 != nil {
						add("newheader-verdict-reshaped", "NewHeader rejected a sub-list (%v) of a parsed valid list: %v %s", sub, err2, pm)
						return
					}
				}
			}
		}
	}

	// ---- entry point 2: retention string printed by the harness (+ CLI flag value)
	strOK := lv == Valid
	printable := len(c.List) > 0
	var parts []string
	for _, a := range c.List {
		if a.Step < 0 || a.Points < 0 {
			printable = false
			break
		}
		ret := a.Step * a.Points
		if a.Step > math.MaxInt32 || ret > math.MaxInt32 {
			strOK = false // values exceeding 31 bits must be rejected (C19)
		}
		parts = append(parts, printDurExact(a.Step)+":"+printDurExact(ret))
	}
	if printable {
		s := strings.Join(parts, ",")
		var got wt.ArchiveInfoList
		var err error
		if pm := guard(func() { got, err = wt.ParseArchiveInfoList(s) }); pm != "" {
			add("parse-panic", "ParseArchiveInfoList(%q) panicked: %s", s, pm)
			return
		}
		verdicts["ParseArchiveInfoList"] = err == nil
		if (err == nil) != strOK {
			add("parse-verdict", "ParseArchiveInfoList(%q) accepted=%v, rules say %v (%s) err=%v", s, err == nil, strOK, why, err)
			return
		}
		if err == nil {
			for i, a := range c.List {
				if int64(got[i].SecondsPerPoint()) != a.Step || int64(got[i].NumberOfPoints()) != a.Points {
					add("parse-value", "ParseArchiveInfoList(%q) archive %d = %d x %d", s, i, got[i].SecondsPerPoint(), got[i].NumberOfPoints())
					return
				}
			}
		}
		fset, gc := newGenerateFlags()
		ferr := fset.Set("retentions", s)
		verdicts["flag-retentions"] = ferr == nil
		if (ferr == nil) != strOK {
			add("flag-verdict", "-retentions %q accepted=%v, rules say %v (%s)", s, ferr == nil, strOK, why)
			return
		}
		_ = gc
	}
	// method / xff through the CLI flag values
	{
		fset, _ := newGenerateFlags()
		if c.Method >= 0 && c.Method < len(methodNames) {
			err := fset.Set("agg-method", methodNames[c.Method])
			if (err == nil) != methodOK {
				add("flag-method-verdict", "-agg-method %s accepted=%v, storable=%v", methodNames[c.Method], err == nil, methodOK)
				return
			}
		}
		xs := strconv.FormatFloat(float64(xff), 'g', -1, 32)
		err := fset.Set("x-files-factor", xs)
		if (err == nil) != xffOK {
			add("flag-xff-verdict", "-x-files-factor %s accepted=%v, a number in [0,1]=%v", xs, err == nil, xffOK)
			return
		}
	}

	// ---- entry point 3: Header.TakeFrom on harness-encoded bytes with exact derived fields
	encodable := len(c.List) <= 64
	var was []WspArchive
	off := int64(16 + 12*len(c.List))
	for _, a := range c.List {
		if a.Step < 0 || a.Step > math.MaxUint32 || a.Points < 0 || a.Points > math.MaxUint32 {
			encodable = false
			break
		}
		was = append(was, WspArchive{Offset: uint32(off), Step: uint32(a.Step), Points: uint32(a.Points)}) // offset wraps when it cannot be held
		off += 12 * a.Points
	}
	var hb []byte
	if encodable {
		maxRet := uint32(0)
		if n := len(c.List); n > 0 {
			maxRet = uint32(c.List[n-1].Step * c.List[n-1].Points)
		}
		hb = EncodeWspHeader(uint32(c.Method), maxRet, xff, was)
		h2 := &wt.Header{}
		var rest []byte
		var err error
		in := append(append([]byte(nil), hb...), 0xAA, 0xBB)
		if pm := guard(func() { rest, err = h2.TakeFrom(in) }); pm != "" {
			add("takefrom-panic", "Header.TakeFrom panicked: %s", pm)
			return
		}
		verdicts["TakeFrom"] = err == nil
		if (err == nil) != wantOK {
			add("takefrom-verdict", "Header.TakeFrom of spec-encoded bytes accepted=%v, rules say valid=%v (%s) err=%v", err == nil, wantOK, reason, err)
			return
		}
		if err == nil {
			if len(rest) != 2 {
				add("takefrom-rest", "Header.TakeFrom left %d bytes, want 2", len(rest))
				return
			}
			if hdr != nil && h2.String() != hdr.String() {
				add("takefrom-differs", "decoded header differs from NewHeader's:\n%s\nvs\n%s", h2.String(), hdr.String())
				return
			}
			if re := h2.AppendTo(nil); !bytes.Equal(re, hb) {
				add("takefrom-reencode", "decoded header re-encodes to different bytes")
				return
			}
		}
	}

	// ---- entry point 4: Open on a file with those bytes; Create + Sync + reopen for accepted lists
	size := int64(16 + 12*len(c.List))
	for _, a := range c.List {
		if a.Points > 0 && a.Points < 1<<40 {
			size += 12 * a.Points
		}
	}
	dir := scratchDir()
	defer os.RemoveAll(dir)
	if encodable && size <= 8<<20 {
		p := filepath.Join(dir, "raw.wsp")
		body := make([]byte, size)
		copy(body, hb)
		os.WriteFile(p, body, 0644)
		db, err := openWT(p)
		verdicts["Open"] = err == nil
		if err == nil {
			db.Close()
		}
		if (err == nil) != wantOK {
			add("open-verdict", "Open of a file with spec-encoded header accepted=%v, rules say valid=%v (%s) err=%v", err == nil, wantOK, reason, err)
			return
		}
	}
	created := false
	if wantOK && goTypes && size <= 1<<20 {
		p := filepath.Join(dir, "created.wsp")
		var al wt.ArchiveInfoList
		for _, a := range c.List {
			al = append(al, wt.NewArchiveInfo(wt.Duration(a.Step), uint32(a.Points)))
		}
		var db *wt.Whisper
		var err error
		var opts []wt.Option
		if c.XFFBits%5 == 0 {
			// re-create in place over a longer, unrelated file (what a caller without O_EXCL does)
			os.WriteFile(p, make([]byte, int(size)+4096+int(c.XFFBits%977)), 0644) // zero-filled: only the length is unrelated
			opts = append(opts, wt.WithOpenFileFlag(os.O_RDWR|os.O_CREATE))
		}
		afterRefusal := ""
		if c.XFFBits%5 == 1 {
			// a Create of the same path that is refused for its arguments (no archives / an unknown method) comes first:
			// whether a list is accepted depends on the list, not on what was asked for before
			guard(func() {
				if c.XFFBits%2 == 0 {
					_, err = wt.Create(p, nil, wt.AggregationMethod(c.Method), xff)
				} else {
					_, err = wt.Create(p, al, wt.AggregationMethod(0), xff)
				}
			})
			if err != nil {
				afterRefusal = " (after a Create of the same path that was refused: " + err.Error() + ")"
			}
			err = nil
		}
		if pm := guard(func() { db, err = wt.Create(p, al, wt.AggregationMethod(c.Method), xff, opts...) }); pm != "" || err != nil {
			add("create-fails", "Create of an accepted layout failed%s: %v %s", afterRefusal, err, pm)
			return
		}
		verdicts["Create"] = true
		if err := db.Sync(); err != nil {
			add("create-sync", "Sync after Create: %v", err)
			return
		}
		hs := db.Header().String()
		db.Close()
		b, _ := os.ReadFile(p)
		if int64(len(b)) != size {
			add("create-size", "created file has %d bytes, header + 12 x points = %d", len(b), size)
			return
		}
		if !bytes.Equal(b[:len(hb)], hb) {
			add("create-header-bytes", "created header bytes differ from the specification encoding:\n got %x\nwant %x", b[:len(hb)], hb)
			return
		}
		db2, err := openWT(p)
		if err != nil {
			add("create-reopen", "Open of a created+synced file failed: %v", err)
			return
		}
		h2 := db2.Header()
		if h2.String() != hs || h2.AggregationMethod() != wt.AggregationMethod(c.Method) || math.Float32bits(h2.XFilesFactor()) != math.Float32bits(xff) || !h2.ArchiveInfoList().Equal(al) || int64(h2.MaxRetention()) != c.List[len(c.List)-1].Step*c.List[len(c.List)-1].Points {
			add("create-reopen-differs", "reopened header differs:\n%s\nvs\n%s", h2.String(), hs)
		}
		db2.Close()
		if len(fs) > 0 {
			return
		}
		created = true
	} else if !wantOK && goTypes {
		// Create must refuse and must not leave a file behind
		p := filepath.Join(dir, "refused.wsp")
		var al wt.ArchiveInfoList
		for _, a := range c.List {
			al = append(al, wt.NewArchiveInfo(wt.Duration(a.Step), uint32(a.Points)))
		}
		var db *wt.Whisper
		var err error
		if pm := guard(func() { db, err = wt.Create(p, al, wt.AggregationMethod(c.Method), xff) }); pm != "" {
			add("create-panic", "Create panicked: %s", pm)
			return
		}
		if err == nil {
			db.Close()
			add("create-verdict", "Create accepted an invalid layout (%s)", reason)
			return
		}
		verdicts["Create"] = false
	}

	// non-triviality: within one unit of a rule boundary / 32-bit limit / boundary xff or method
	cls := []string{"valid=" + strconv.FormatBool(wantOK)}
	if !wantOK {
		cls = append(cls, "broken:"+reason)
	}
	if c.Note != "" {
		cls = append(cls, "mut:"+c.Note)
	}
	if created {
		cls = append(cls, "created+reopened")
	}
	nontrivial := c.Note != "" && c.Note != "valid-plain"
	ev.Count(HashJSON(c), nontrivial, cls...)
	if nontrivial && ev.WantSample() {
		ev.Sample(c)
	}
	return nil
}

var xffBitChoices = []uint32{
	0x00000000, 0x80000000, // +0 -0
	0x3f800000, 0x3f800001, 0x3f7fffff, // 1, nextafter(1, +inf), nextafter(1, 0)
	0x00000001, 0x80000001, // smallest subnormals +-
	0x7fc00000, 0xffc00000, 0x7f800001, // NaNs
	0x7f800000, 0xff800000, // +-Inf
	0x3f000000, 0xbf000000, 0x40000000, // 0.5 -0.5 2
}

func genC07(t *rapid.T) C07Case {
	o := defaultLayoutOpts()
	o.AllowMultiPage = false
	l := genLayout(t, o)
	c := C07Case{Method: l.Method, XFFBits: math.Float32bits(l.XFF)}
	for _, a := range l.Archives {
		c.List = append(c.List, RawArch{Step: a.Step, Points: a.Points})
	}
	if rapid.IntRange(0, 11).Draw(t, "manyArchives") == 0 {
		// 5-30 archives (headers of 76-376 bytes): steps double or triple, 2-4 points each
		c.List = nil
		n := rapid.IntRange(5, 30).Draw(t, "archiveCount")
		step, prevRet := int64(1), int64(0)
		for i := 0; i < n; i++ {
			pts := rapid.Int64Range(3, 5).Draw(t, "fewPoints")
			if step*pts <= prevRet {
				pts = prevRet/step + 1
			}
			if step*pts > math.MaxInt32 {
				break
			}
			c.List = append(c.List, RawArch{Step: step, Points: pts})
			prevRet = step * pts
			step *= int64(rapid.IntRange(2, 3).Draw(t, "stepRatio"))
		}
	}
	k := len(c.List)
	pick := func() int { return rapid.IntRange(0, k-1).Draw(t, "at") }
	pickPair := func() int {
		if k < 2 {
			return -1
		}
		return rapid.IntRange(0, k-2).Draw(t, "pair")
	}
	switch m := rapid.IntRange(0, 19).Draw(t, "mutation"); m {
	case 0, 1:
		c.Note = "valid-plain"
	case 2: // method boundary
		c.Method = rapid.SampledFrom([]int{0, 1, 6, 7, 8, 9}).Draw(t, "method")
		c.Note = "method"
	case 3: // xff boundary
		c.XFFBits = rapid.SampledFrom(xffBitChoices).Draw(t, "xffBits")
		c.Note = "xff"
	case 4:
		if rapid.Bool().Draw(t, "randomXff") {
			c.XFFBits = rapid.Uint32().Draw(t, "xffAny")
			c.Note = "xff-any-bits"
		} else {
			c.List = nil
			c.Note = "empty"
		}
	case 5: // equal steps
		if i := pickPair(); i >= 0 {
			c.List[i+1].Step = c.List[i].Step
			c.Note = "equal-steps"
		}
	case 6: // non-dividing step
		if i := pickPair(); i >= 0 {
			c.List[i+1].Step += rapid.Int64Range(1, c.List[i].Step).Draw(t, "delta")
			c.Note = "non-dividing-or-still-dividing"
		}
	case 7: // equal / shorter / just longer retention
		if i := pickPair(); i >= 0 {
			a, b := c.List[i], c.List[i+1]
			d := rapid.Int64Range(-1, 1).Draw(t, "retDelta")
			// choose points of b so that ret_b is the multiple of step_b nearest to ret_a, shifted by d steps
			pb := floorDiv(a.Step*a.Points, b.Step) + d
			c.List[i+1].Points = pb
			c.Note = "retention-boundary"
		}
	case 8: // one point too few / exactly enough to consolidate
		if i := pickPair(); i >= 0 {
			ratio := c.List[i+1].Step / c.List[i].Step
			c.List[i].Points = ratio + rapid.Int64Range(-1, 1).Draw(t, "ptsDelta")
			c.Note = "consolidate-boundary"
		}
	case 9: // zero / negative values
		i := pick()
		switch rapid.IntRange(0, 3).Draw(t, "zeroKind") {
		case 0:
			c.List[i].Step = 0
		case 1:
			c.List[i].Points = 0
		case 2:
			c.List[i].Step = -c.List[i].Step
		default:
			c.List[i].Step = int64(1)<<31 + rapid.Int64Range(0, 5).Draw(t, "negAsUint") // negative as a 32-bit field
		}
		c.Note = "zero-or-negative"
	case 10: // swapped order
		if i := pickPair(); i >= 0 {
			c.List[i], c.List[i+1] = c.List[i+1], c.List[i]
			c.Note = "swapped"
		}
	case 11, 12, 13: // 32-bit extremes: retention products near 2^31 / 2^32
		i := pick()
		lim := rapid.SampledFrom([]int64{1 << 31, 1 << 32, 1<<31 - 1}).Draw(t, "limit")
		c.List = c.List[:i+1]
		if rapid.Bool().Draw(t, "hugeStep") && i > 0 {
			c.List[i].Step = c.List[i-1].Step * rapid.SampledFrom([]int64{60, 3600, 86400}).Draw(t, "stepMul")
		}
		c.List[i].Points = lim/c.List[i].Step + rapid.Int64Range(-2, 2).Draw(t, "ptsD")
		c.Note = "retention-32bit-boundary"
	case 14, 15: // offsets near 2^32: an earlier archive so large that a later offset wraps
		c.List = []RawArch{{Step: 1, Points: (int64(1)<<32-40)/12 + rapid.Int64Range(-3, 3).Draw(t, "offD")}}
		ret := c.List[0].Points
		st := rapid.SampledFrom([]int64{60, 3600}).Draw(t, "step2")
		c.List = append(c.List, RawArch{Step: st, Points: ret/st + 1 + rapid.Int64Range(0, 5).Draw(t, "p2")})
		c.Note = "offset-32bit-boundary"
	case 16: // the documented example of a parseable layout that does not fit: 1s:20y,1m:40y and neighbours
		y := int64(365 * 86400)
		n := rapid.Int64Range(5, 30).Draw(t, "years")
		c.List = []RawArch{{Step: 1, Points: n * y}, {Step: 60, Points: 2 * n * y / 60}}
		c.Note = "years-scale"
	case 17: // a NON-last archive whose retention is k x 2^32 + r: the low 32 bits r sit strictly between the
		// neighbours' retentions, so every pairwise rule computed on 32-bit products is satisfied (round 10, C07t)
		s0 := rapid.SampledFrom([]int64{1, 2, 4}).Draw(t, "s0")
		p0 := rapid.Int64Range(8, 16).Draw(t, "p0")
		s1 := s0 * rapid.SampledFrom([]int64{8, 16, 32}).Draw(t, "r1")
		if s1 < 16 {
			s1 = 16
		}
		kk := (s0*p0)/s1 + rapid.Int64Range(1, 3).Draw(t, "k")       // r = s1*kk > s0*p0
		wraps := rapid.SampledFrom([]int64{1, 1, 1, 2}).Draw(t, "wraps") // file stays below 4 GiB for s1 >= 16 and one wrap
		p1 := wraps*(int64(1)<<32)/s1 + kk
		s2 := s1 * rapid.SampledFrom([]int64{2, 4}).Draw(t, "r2")
		p2 := (s1*kk)/s2 + rapid.Int64Range(1, 3).Draw(t, "p2")
		c.List = []RawArch{{Step: s0, Points: p0}, {Step: s1, Points: p1}, {Step: s2, Points: p2}}
		if rapid.Bool().Draw(t, "twoOnly") {
			c.List = c.List[1:]
		}
		c.Note = "wrapped-middle-retention"
	default:
		c.Note = "valid-plain"
	}
	c.Reshape = rapid.SampledFrom([]string{"", "", "tail-of-header-list", "copied-tail", "parsed-prefix"}).Draw(t, "reshape")
	return c
}

func TestC07(t *testing.T) {
	RunProperty(t, Property[C07Case]{
		ID:          "C07",
		Rule:        "rapid-generated archive lists: a valid layout built by construction, then at most one mutation at a rule boundary (equal steps, non-dividing step, retention equal/one step shorter/longer, one point too few, zero/negative values, swapped order, empty list, retention products within +-2 of 2^31 and 2^32, offsets within +-3 slots of 2^32, year-scale layouts, a non-last archive whose retention is k x 2^32 plus a remainder lying between its neighbours' retentions), method 0..9 and xFilesFactor bit patterns incl. NaN/+-Inf/-0/nextafter(0|1); each judged by the rules in exact int64 arithmetic and compared with NewHeader, Create (+Sync+reopen, header bytes vs. specification encoding), ParseArchiveInfoList on a harness-printed string, the -retentions/-agg-method/-x-files-factor flag values, Header.TakeFrom on specification-encoded bytes and Open on a file with those bytes. Non-trivial: the case carries a boundary mutation (not 'valid-plain'). Grey-zone lists (Z3) are discarded and counted. Distinct = hash of the case.",
		Assumptions: []string{"Z3: retentions in [2^31,2^32) and files whose end (not an offset field) exceeds 2^32 get no verdict", "strings are printed in seconds by the harness (unit handling is C19's)"},
		Gen:         genC07,
		Run:         runC07,
		Fixed: func() []C07Case {
			y := int64(365 * 86400)
			return []C07Case{
				{List: []RawArch{{1, 20 * y}, {60, 40 * y / 60}}, Method: 2, XFFBits: 0, Note: "1s:20y,1m:40y"},
				{List: []RawArch{{3600, 268435458}}, Method: 1, XFFBits: 0x3f000000, Note: "retention wraps int32"},
				{List: []RawArch{{1, 60}}, Method: 1, XFFBits: 0x7fc00000, Note: "NaN xff"},
				{List: []RawArch{{1, 60}, {60, 60}}, Method: 7, XFFBits: 0, Note: "mix"},
				{List: []RawArch{{1, 60}, {60, 1}}, Method: 1, XFFBits: 0, Note: "equal retention"},
				{List: []RawArch{{1, 59}, {60, 2}}, Method: 1, XFFBits: 0, Note: "one point too few"},
				{List: []RawArch{{2, 8}, {16, 1<<28 + 2}, {32, 2}}, Method: 1, XFFBits: 0, Note: "middle retention wraps to 32 s"},
			}
		},
	})
}
