package props

import (
	"errors"
	"fmt"
	"math"
	"os"
	"path/filepath"
	"sort"
	"strings"
	"testing"

	wt "github.com/hnakamur/whispertool"
	"github.com/hnakamur/whispertool/cmd"
	"pgregory.net/rapid"
)

// C10 - sum is the slot-wise NaN-skipping sum of the matched files.
type TreeFile struct {
	Dir  string   `json:"dir"`
	Name string   `json:"name"`
	Spec FileSpec `json:"spec"`
	// Link: the file lives under <base>/../linked/ and Dir/Name is a symbolic link to it
	Link bool `json:"link,omitempty"`
}

type C10Case struct {
	Now         int64      `json:"now"`
	Files       []TreeFile `json:"files"`
	ItemPattern string     `json:"item_pattern"`
	SrcPattern  string     `json:"src_pattern"`
	From        int64      `json:"from"`
	Until       int64      `json:"until"`
	ArchiveID   int        `json:"archive_id"`
	ShowHeader  bool       `json:"show_header"`
	// Again > 0: after the first run every file gets a point at now + Again and the SAME command value is
	// executed once more at that later clock (a program that reuses one command for periodic runs)
	Again int64 `json:"again,omitempty"`
}

func buildTree(base string, files []TreeFile, now int64) error {
	for i, f := range files {
		if f.Link {
			target := filepath.Join(filepath.Dir(base), "linked-"+filepath.Base(base), fmt.Sprintf("t%d.wsp", i))
			if err := buildFile(target, f.Spec, now); err != nil {
				return err
			}
			if err := os.MkdirAll(filepath.Join(base, f.Dir), 0755); err != nil {
				return err
			}
			if err := os.Symlink(target, filepath.Join(base, f.Dir, f.Name)); err != nil {
				return err
			}
			continue
		}
		if err := buildFile(filepath.Join(base, f.Dir, f.Name), f.Spec, now); err != nil {
			return err
		}
	}
	return nil
}

// itemsOf lists the items a pattern selects, the way a shell glob over the base would: matched
// paths relative to the base, separators shown as dots.
func itemsOf(base, pattern string) []string {
	m, _ := filepath.Glob(filepath.Join(base, pattern))
	var items []string
	for _, p := range m {
		rel, _ := filepath.Rel(base, p)
		items = append(items, strings.ReplaceAll(rel, string(filepath.Separator), "."))
	}
	return items
}

type sumExpect struct {
	NotExist bool
	Mismatch bool
	IDRange  bool
	Layout   Layout
	// per archive: nil when not selected or no series
	Series []*Series
	Files  int
	// partial: some slot where some but not all files have a value
	Partial bool
}

// expectedSum computes the sum of the files matched in one item directory independently.
func expectedSum(base, item, srcPattern string, archiveID int, from, until, now int64, layouts map[string]Layout) sumExpect {
	dirRel := strings.ReplaceAll(item, ".", string(filepath.Separator))
	files, _ := filepath.Glob(filepath.Join(base, dirRel, srcPattern))
	if len(files) == 0 {
		return sumExpect{NotExist: true}
	}
	e := sumExpect{Files: len(files)}
	l0 := layouts[files[0]]
	e.Layout = l0
	for _, f := range files {
		if archiveID >= len(layouts[f].Archives) {
			// the selected archive does not exist in some matched file: any error will do
			e.Mismatch, e.IDRange = true, true
			return e
		}
	}
	for _, f := range files[1:] {
		if !layoutsEqualArchives(l0, layouts[f]) {
			e.Mismatch = true
			return e
		}
	}
	e.Series = make([]*Series, len(l0.Archives))
	for a := range l0.Archives {
		if archiveID != -1 && archiveID != a {
			continue
		}
		var acc *Series
		var have []int
		for _, f := range files {
			rs, err := readArchives(f, l0, from, until, now)
			if err != nil {
				continue
			}
			r := rs[a]
			if r.Nil || r.Err != nil {
				continue
			}
			if acc == nil {
				acc = &Series{From: r.S.From, Until: r.S.Until, Step: r.S.Step, Values: make([]float64, len(r.S.Values))}
				for i := range acc.Values {
					acc.Values[i] = math.NaN()
				}
				have = make([]int, len(r.S.Values))
			}
			for i, v := range r.S.Values {
				if v != v {
					continue
				}
				have[i]++
				if acc.Values[i] != acc.Values[i] {
					acc.Values[i] = v
				} else {
					acc.Values[i] += v
				}
			}
		}
		for _, h := range have {
			if h > 0 && h < len(files) {
				e.Partial = true
			}
		}
		e.Series[a] = acc
	}
	return e
}

// parsePointRecords turns "archive:.. t:.. val:.." records into per-archive (t, v) lists.
func parsePointRecords(recs []Record) (map[int][]rawPoint, string) {
	out := map[int][]rawPoint{}
	for _, r := range recs {
		if _, ok := r["val"]; !ok {
			continue
		}
		var a int
		if _, err := fmt.Sscanf(r["archive"], "%d", &a); err != nil {
			return nil, "bad archive field: " + r["_line"]
		}
		t, ok := parseTime(r["t"])
		v, ok2 := parseVal(r["val"])
		if !ok || !ok2 {
			return nil, "bad point record: " + r["_line"]
		}
		out[a] = append(out[a], rawPoint{t, v})
	}
	return out, ""
}

func compareSeriesRecords(got map[int][]rawPoint, want []*Series) string {
	for a, s := range want {
		g := got[a]
		n := 0
		if s != nil {
			n = len(s.Values)
		}
		if len(g) != n {
			return fmt.Sprintf("archive %d: %d point records, expected %d", a, len(g), n)
		}
		for i := 0; i < n; i++ {
			if g[i].T != s.From+int64(i)*s.Step || !sameF(g[i].V, s.Values[i]) && !(g[i].V == 0 && s.Values[i] == 0) {
				return fmt.Sprintf("archive %d record %d: got (t=%d, %s), expected (t=%d, %s)", a, i, g[i].T, fstr(g[i].V), s.From+int64(i)*s.Step, fstr(s.Values[i]))
			}
		}
	}
	for a := range got {
		if a < 0 || a >= len(want) {
			return fmt.Sprintf("records for archive %d which the layout does not have", a)
		}
	}
	return ""
}

// compareSeriesRecordsExact is compareSeriesRecords with bit-exact values (order-sensitive sums).
func compareSeriesRecordsExact(got map[int][]rawPoint, want []*Series) string {
	for a, s := range want {
		g := got[a]
		n := 0
		if s != nil {
			n = len(s.Values)
		}
		if len(g) != n {
			return fmt.Sprintf("archive %d: %d point records, expected %d", a, len(g), n)
		}
		for i := 0; i < n; i++ {
			if g[i].T != s.From+int64(i)*s.Step || !sameF(g[i].V, s.Values[i]) {
				return fmt.Sprintf("archive %d record %d: got (t=%d, %s), expected (t=%d, %s)", a, i, g[i].T, fstr(g[i].V), s.From+int64(i)*s.Step, fstr(s.Values[i]))
			}
		}
	}
	return ""
}

func layoutMap(base string, files []TreeFile) map[string]Layout {
	m := map[string]Layout{}
	for _, f := range files {
		// (a symbolic link is listed under the name the glob returns)
		m[filepath.Join(base, f.Dir, f.Name)] = f.Spec.L
	}
	return m
}

func runC10(c C10Case, ev *Evid) (fs []Finding) {
	add := func(key, format string, args ...interface{}) {
		fs = append(fs, Finding{Property: "C10", Key: key, Detail: fmt.Sprintf(format, args...)})
	}
	dir := scratchDir()
	defer os.RemoveAll(dir)
	base := filepath.Join(dir, "tree")
	os.MkdirAll(base, 0755)
	now := c.Now
	until := effUntil(c.Until, now)
	if c.ItemPattern == "notes*" || c.ItemPattern == "*.txt" || c.ItemPattern == "notes.txt" {
		os.MkdirAll(base, 0755)
		os.WriteFile(filepath.Join(base, "notes.txt"), []byte("not a directory\n"), 0644)
	}
	if err := buildTree(base, c.Files, now); err != nil {
		add("setup", "%v", err)
		return
	}
	out := filepath.Join(dir, "sum.txt")
	sc := &cmd.SumCommand{SrcBase: base, ItemPattern: c.ItemPattern, SrcPattern: c.SrcPattern, From: wt.Timestamp(c.From), Until: wt.Timestamp(c.Until), ArchiveID: c.ArchiveID, TextOut: out, ShowHeader: c.ShowHeader}
	var err error
	var pm string
	again := false
	if c.Again > 0 {
		// (the very object is executed, not a copy made for respelling / flag parsing)
		pm = atClock(now, func() { err = sc.Execute() })
	} else {
		err, pm = runCommand(now, sc)
	}
judge:
	desc := fmt.Sprintf("sum now=%d item=%q src=%q from=%d until=%d archive=%d", now, c.ItemPattern, c.SrcPattern, c.From, c.Until, c.ArchiveID)
	if again {
		desc = "(same command value executed again " + fmt.Sprint(c.Again) + " s later) " + desc
	}
	if pm != "" {
		add("sum-panic", "%s: panicked: %s", desc, pm)
		return
	}
	items := itemsOf(base, c.ItemPattern)
	lm := layoutMap(base, c.Files)
	recs := parseLTSV(readText(out))
	// split per item
	var groups [][]Record
	var names []string
	for _, r := range recs {
		if it, ok := r["item"]; ok {
			if tv, ok2 := parseTime(r["now"]); !ok2 || tv != now {
				add("harness-clock", "command ran at %q, harness clock %d", r["now"], now)
				return
			}
			names = append(names, it)
			groups = append(groups, nil)
			continue
		}
		if len(groups) > 0 {
			groups[len(groups)-1] = append(groups[len(groups)-1], r)
		}
	}
	if len(items) == 0 {
		if err == nil || !os.IsNotExist(err) {
			add("no-item-verdict", "%s: the item pattern matches nothing; result %v, want a not-exist error", desc, err)
			return
		}
		ev.Count(HashJSON(c), false, "item-pattern-matches-nothing")
		return nil
	}
	multi, partial, single := false, false, false
	for i, item := range items {
		e := expectedSum(base, item, c.SrcPattern, c.ArchiveID, c.From, until, now, lm)
		if e.NotExist || e.Mismatch {
			if err == nil {
				add("error-swallowed", "%s: item %s (no file matches / layouts differ: notExist=%v mismatch=%v) but the command reported success", desc, item, e.NotExist, e.Mismatch)
				return
			}
			if e.NotExist && !os.IsNotExist(err) {
				add("not-exist-class", "%s: item %s has no matching file; error %q is not a not-exist error", desc, item, err)
				return
			}
			if e.Mismatch && !e.IDRange && (os.IsNotExist(err) || errors.Is(err, cmd.ErrDiffFound)) {
				add("mismatch-class", "%s: item %s has files of differing layouts; error %q", desc, item, err)
				return
			}
			cls := "file-pattern-matches-nothing"
			if e.Mismatch {
				cls = "layout-mismatch"
			}
			ev.Count(HashJSON(c), false, cls)
			return nil
		}
		if i >= len(groups) {
			add("item-missing", "%s: no output for item %s (error %v)", desc, item, err)
			return
		}
		if names[i] != item {
			add("item-name", "%s: output item %q, expected %q", desc, names[i], item)
			return
		}
		got, perr := parsePointRecords(groups[i])
		if perr != "" {
			add("output-unparsable", "%s: %s", desc, perr)
			return
		}
		if d := compareSeriesRecords(got, e.Series); d != "" {
			add("sum-differs", "%s: item %s (%d files): %s", desc, item, e.Files, d)
			return
		}
		hdr := 0
		for _, r := range groups[i] {
			if _, ok := r["aggMethod"]; ok {
				hdr++
			}
		}
		if (hdr == 1) != c.ShowHeader {
			add("header-lines", "%s: item %s: %d header blocks, header requested=%v", desc, item, hdr, c.ShowHeader)
			return
		}
		if e.Files >= 2 {
			multi = true
		}
		if e.Files == 1 {
			single = true
		}
		if e.Partial {
			partial = true
		}
	}
	if err != nil {
		add("sum-error", "%s: every item is summable but the command failed: %v", desc, err)
		return
	}
	if len(groups) != len(items) {
		add("item-count", "%s: output has %d items, pattern selects %d", desc, len(groups), len(items))
		return
	}
	nontrivial := multi && partial
	cls := []string{fmt.Sprintf("items=%d", len(items))}
	if multi {
		cls = append(cls, "multi-file-item")
	}
	if single {
		cls = append(cls, "single-file-item")
	}
	if partial {
		cls = append(cls, "partial-slot")
	}
	if c.ArchiveID >= 0 {
		cls = append(cls, "single-archive")
	}
	if c.Again > 0 && !again && err == nil {
		again = true
		now += c.Again
		until = effUntil(c.Until, now)
		for i, f := range c.Files {
			if lm[filepath.Join(base, f.Dir, f.Name)].String() != c.Files[0].Spec.L.String() {
				continue
			}
			if e := modifyFile(filepath.Join(base, f.Dir, f.Name), []SlotWrite{{Arch: 0, T: now, V: F64(float64(i) + 0.5)}}, now); e != nil {
				add("setup", "second run: %v", e)
				return
			}
		}
		out = filepath.Join(dir, "sum2.txt")
		sc.TextOut = out
		pm = atClock(now, func() { err = sc.Execute() })
		if pm != "" {
			add("sum-panic", "second run: panicked: %s", pm)
			return
		}
		goto judge
	}
	if again {
		cls = append(cls, "same-command-executed-again-later")
	}
	ev.Count(HashJSON(c), nontrivial, cls...)
	if nontrivial && ev.WantSample() && len(c.Files) <= 3 {
		ev.Sample(c)
	}
	return nil
}

var treeDirs = []string{"s1", "s2", "grp/a", "grp/b", "deep/x/y"}

func genTree(t *rapid.T, l Layout, now int64, allowMismatch bool) []TreeFile {
	var files []TreeFile
	nd := rapid.IntRange(1, 3).Draw(t, "dirs")
	dirs := rapid.Permutation(treeDirs).Draw(t, "dirOrder")[:nd]
	sort.Strings(dirs)
	for _, d := range dirs {
		nf := rapid.IntRange(1, 6).Draw(t, "filesInDir")
		if rapid.IntRange(0, 3).Draw(t, "few") > 0 && nf > 3 {
			nf = 3
		}
		for i := 0; i < nf; i++ {
			fl := l
			if allowMismatch && rapid.IntRange(0, 19).Draw(t, "mismatch") == 0 {
				fl = genCLILayout(t)
				if rapid.Bool().Draw(t, "subtle") {
					fl = subtleLayoutVariant(l)
				}
			}
			files = append(files, TreeFile{Dir: d, Name: fmt.Sprintf("f%d.wsp", i+1), Spec: genSpec(t, fl, now, valDyadic, 15), Link: rapid.IntRange(0, 9).Draw(t, "symlink") == 0})
		}
	}
	return files
}

// genTreePatterns draws item / file patterns that mostly match something in the tree.
func genTreePatterns(t *rapid.T, files []TreeFile) (string, string) {
	var cands []string
	seen := map[string]bool{}
	for _, f := range files {
		ps := []string{f.Dir, f.Dir}
		switch {
		case strings.HasPrefix(f.Dir, "s"):
			ps = append(ps, "s*", "s?", "s[12]")
		case strings.HasPrefix(f.Dir, "grp/"):
			ps = append(ps, "grp/*", "grp/[ab]", "g*/?")
		default:
			ps = append(ps, "deep/*/*", "deep/x/*")
		}
		for _, p := range ps {
			if !seen[p] || p == f.Dir {
				seen[p] = true
				cands = append(cands, p)
			}
		}
	}
	cands = append(cands, "*")
	item := rapid.SampledFrom(cands).Draw(t, "itemPattern")
	if rapid.IntRange(0, 11).Draw(t, "itemNoMatch") == 0 {
		// (the last three match only a stray regular file in the base directory: an item that is not a directory
		// has no files, which is reported like any other item without files)
		item = rapid.SampledFrom([]string{"nomatch*", "s9", "grp/zz*", "grp/*/*/*", "notes*", "*.txt", "notes.txt"}).Draw(t, "itemNoMatchPattern")
	}
	src := rapid.SampledFrom([]string{"*.wsp", "*.wsp", "*.wsp", "*.wsp", "f?.wsp", "f[12].wsp", "f1.wsp", "f[2-6].wsp", "f*1.wsp", "f*[2-6].wsp"}).Draw(t, "srcPattern")
	if rapid.IntRange(0, 11).Draw(t, "srcNoMatch") == 0 {
		src = "zzz*.wsp"
	}
	if rapid.IntRange(0, 5).Draw(t, "dirPartInSrc") == 0 {
		// the file pattern is a glob relative to the item directory and may have a directory part of its own
		var alts [][2]string
		for _, f := range files {
			switch {
			case strings.HasPrefix(f.Dir, "grp/"):
				alts = append(alts, [2]string{"grp", "*/" + src}, [2]string{"grp", strings.TrimPrefix(f.Dir, "grp/") + "/" + src}, [2]string{"g*", "[ab]/" + src})
			case strings.HasPrefix(f.Dir, "deep/"):
				parts := strings.Split(f.Dir, "/")
				if len(parts) >= 3 {
					alts = append(alts, [2]string{strings.Join(parts[:2], "/"), strings.Join(parts[2:], "/") + "/" + src}, [2]string{"deep", "*/*/" + src}, [2]string{"deep/*", "?/" + src})
				}
			}
		}
		if len(alts) > 0 {
			a := rapid.SampledFrom(alts).Draw(t, "dirPartPattern")
			return a[0], a[1]
		}
	}
	return item, src
}

func genC10(t *rapid.T) C10Case {
	l := genCLILayout(t)
	now := genNowRealistic(t, l)
	c := C10Case{Now: now, ArchiveID: -1}
	c.Files = genTree(t, l, now, true)
	if rapid.IntRange(0, 24).Draw(t, "manyFiles") == 0 {
		// an item with 60-140 files (batching / descriptor limits in the readers); cheap to describe: filled
		// files whose values differ per file
		d := c.Files[0].Dir
		n := rapid.IntRange(60, 140).Draw(t, "manyCount")
		for i := 0; i < n; i++ {
			c.Files = append(c.Files, TreeFile{Dir: d, Name: fmt.Sprintf("h%03d.wsp", i), Spec: FileSpec{L: l, Fill: 1 + int64(i%5), FillBase: F64(float64(i) / 8)}})
		}
	}
	if rapid.IntRange(0, 24).Draw(t, "thresholdWindow") == 0 {
		// windows of exactly 1024, 2048, ... slots (and the other sizes at which plausible block / chunk buffers
		// end): 2-4 files of one archive, each filled over a different part of it
		n := rapid.SampledFrom(thresholdSizes).Draw(t, "slots") + rapid.Int64Range(0, 1).Draw(t, "slotsJitter")
		tl := Layout{Archives: []Arch{{Step: 1, Points: n}}, Method: l.Method, XFF: l.XFF}
		if rapid.Bool().Draw(t, "twoArchives") {
			tl.Archives = append(tl.Archives, Arch{Step: 2, Points: n})
		}
		c.Files = nil
		nf := rapid.IntRange(2, 4).Draw(t, "thresholdFiles")
		for i := 0; i < nf; i++ {
			fill := n
			if i != 1 {
				fill = rapid.Int64Range(1, n).Draw(t, "filled")
			}
			c.Files = append(c.Files, TreeFile{Dir: "s1", Name: fmt.Sprintf("f%d.wsp", i+1), Spec: FileSpec{L: tl, Fill: fill, FillBase: F64(float64(i*1000) + 0.125)}})
		}
		l = tl
	}
	if rapid.IntRange(0, 19).Draw(t, "infPair") == 0 {
		// two files with +Inf and -Inf in the same slot (their sum is NaN although both have a value), finite
		// values and holes around it; exactly two files, so the order of summation cannot matter
		d := c.Files[0].Dir
		var two []TreeFile
		for i := 0; i < 2; i++ {
			two = append(two, TreeFile{Dir: d, Name: fmt.Sprintf("f%d.wsp", i+1), Spec: FileSpec{L: l, Writes: genWrites(t, l, now, valDyadic, 15)}})
		}
		a := rapid.IntRange(0, len(l.Archives)-1).Draw(t, "infArch")
		for n := rapid.IntRange(1, 3).Draw(t, "infSlots"); n > 0; n-- {
			tt := now - rapid.Int64Range(0, minI64(l.Archives[a].Ret(), l.MaxRet())-1).Draw(t, "infAge")
			first := rapid.IntRange(0, 1).Draw(t, "posFirst")
			two[first].Spec.Writes = append(two[first].Spec.Writes, SlotWrite{Arch: a, T: tt, V: F64(math.Inf(1))})
			two[1-first].Spec.Writes = append(two[1-first].Spec.Writes, SlotWrite{Arch: a, T: tt, V: F64(math.Inf(-1))})
		}
		c.Files = two
	}
	c.ItemPattern, c.SrcPattern = genTreePatterns(t, c.Files)
	c.From, c.Until = genCLIWindow(t, l, now)
	if rapid.IntRange(0, 2).Draw(t, "oneArchive") == 0 {
		c.ArchiveID = rapid.IntRange(0, len(l.Archives)-1).Draw(t, "archive")
	}
	c.ShowHeader = rapid.Bool().Draw(t, "header")
	if c.Until == 0 && len(c.Files) <= 8 && rapid.IntRange(0, 5).Draw(t, "again") == 0 {
		c.Again = rapid.Int64Range(1, 2*l.Archives[0].Step+1).Draw(t, "againAfter")
	}
	return c
}

func TestC10(t *testing.T) {
	RunProperty(t, Property[C10Case]{
		NoteCases:   true,
		ID:          "C10",
		Rule:        "rapid-generated trees base/<1-3 item directories, nested up to 3 levels>/<1-6 files> of one layout (1 file in 30 gets another layout), exactly summable values (multiples of 1/8) with 15% NaN writes and sparse archives so holes differ per file; item patterns and file patterns incl. ones matching nothing; windows / archive selection as in C08; header on/off; run at a controlled clock. Oracle: per selected item, an independent slot-wise sum over the files a shell glob selects (value iff some file has one), compared with the parsed point records; layout mismatch => error that is neither not-exist nor diff-found; nothing matched => os.IsNotExist error. Non-trivial: an item with >=2 files and a slot where some but not all files have a value. Distinct = hash of the case.",
		Assumptions: []string{"values are exactly summable so the summation order does not matter", "directory names contain no dots (Z8)"},
		Gen:         genC10,
		Run:         runC10,
	})
}
