package props

import (
	"bytes"
	"errors"
	"fmt"
	"math"
	"os"
	"path/filepath"
	"strings"
	"syscall"
	"testing"

	wt "github.com/hnakamur/whispertool"
	"github.com/hnakamur/whispertool/cmd"
	"pgregory.net/rapid"
)

// C11 - sum-copy stores the sum; sum-diff agrees with it.
type C11Case struct {
	Now         int64      `json:"now"`
	Files       []TreeFile `json:"files"` // all of one layout
	ItemPattern string     `json:"item_pattern"`
	SrcPattern  string     `json:"src_pattern"`
	DestRel     string     `json:"dest_rel"`
	// DestMode per item directory (by index into the sorted distinct dirs): absent | fresh | first-file | random | coarser-equal
	DestModes  []string    `json:"dest_modes"`
	DestWrites []SlotWrite `json:"dest_writes,omitempty"`
	Perturb    []SlotWrite `json:"perturb,omitempty"` // applied to the first item's destination after sum-copy
	From       int64       `json:"from"`
	Until      int64       `json:"until"`
	ArchiveID  int         `json:"archive_id"`
	// LinkDir: the directory of the first source file is moved outside the tree and replaced by a symbolic link to
	// it (item directories that live on another volume): an item is what its path leads to
	LinkDir bool `json:"link_dir,omitempty"`
}

func runC11(c C11Case, ev *Evid) (fs []Finding) {
	add := func(key, format string, args ...interface{}) {
		fs = append(fs, Finding{Property: "C11", Key: key, Detail: fmt.Sprintf(format, args...)})
	}
	dir := scratchDir()
	defer os.RemoveAll(dir)
	base, destBase := filepath.Join(dir, "tree"), filepath.Join(dir, "dest")
	os.MkdirAll(base, 0755)
	os.MkdirAll(destBase, 0755)
	now := c.Now
	until := effUntil(c.Until, now)
	l := c.Files[0].Spec.L
	if err := buildTree(base, c.Files, now); err != nil {
		add("setup", "%v", err)
		return
	}
	if c.LinkDir {
		d := filepath.Join(base, c.Files[0].Dir)
		target := filepath.Join(dir, "elsewhere")
		if err := os.Rename(d, target); err == nil {
			if err := os.Symlink(target, d); err != nil {
				add("setup", "symlink: %v", err)
				return
			}
		}
	}
	items := itemsOf(base, c.ItemPattern)
	lm := layoutMap(base, c.Files)
	if len(items) == 0 {
		ev.Discard("no-item")
		return nil
	}
	destPath := func(item string) string {
		return filepath.Join(destBase, strings.ReplaceAll(item, ".", string(filepath.Separator)), c.DestRel)
	}
	// expected sums (over the full selection) and destination setup
	exps := make([]sumExpect, len(items))
	existed := make([]bool, len(items))
	preEqual, preDiffer, nanInSum := 0, 0, 0
	for i, item := range items {
		exps[i] = expectedSum(base, item, c.SrcPattern, c.ArchiveID, c.From, until, now, lm)
		if exps[i].NotExist || exps[i].Mismatch {
			ev.Discard("unsummable-item")
			return nil
		}
		mode := c.DestModes[i%len(c.DestModes)]
		dp := destPath(item)
		switch mode {
		case "fresh":
			if err := buildFile(dp, FileSpec{L: l}, now); err != nil {
				add("setup", "%v", err)
				return
			}
		case "first-file", "coarser-equal", "readonly":
			var first *TreeFile
			for k := range c.Files {
				if strings.ReplaceAll(c.Files[k].Dir, "/", ".") == item {
					first = &c.Files[k]
					break
				}
			}
			spec := FileSpec{L: l}
			if first != nil {
				spec = first.Spec
			}
			if err := buildFile(dp, spec, now); err != nil {
				add("setup", "%v", err)
				return
			}
			if mode == "coarser-equal" {
				// make every coarser archive equal to the expected sum, leave the finest as is
				full := expectedSum(base, item, c.SrcPattern, -1, 0, now, now, lm)
				var ws []SlotWrite
				for a := 1; a < len(l.Archives); a++ {
					if s := full.Series[a]; s != nil {
						for k, v := range s.Values {
							if v == v {
								ws = append(ws, SlotWrite{Arch: a, T: s.From + int64(k)*s.Step, V: F64(v)})
							}
						}
					}
				}
				if err := modifyFile(dp, ws, now); err != nil {
					add("setup", "%v", err)
					return
				}
			}
		case "near-sum":
			// every stored value of the expected sum, one unit in the last place off
			full := expectedSum(base, item, c.SrcPattern, -1, 0, now, now, lm)
			var ws []SlotWrite
			for a := range l.Archives {
				if s := full.Series[a]; s != nil {
					for k, v := range s.Values {
						if v == v && v != 0 && !math.IsInf(v, 0) {
							ws = append(ws, SlotWrite{Arch: a, T: s.From + int64(k)*s.Step, V: F64(math.Nextafter(v, math.Inf(1)))})
						}
					}
				}
			}
			if err := buildFile(dp, FileSpec{L: l, Writes: ws}, now); err != nil {
				add("setup", "%v", err)
				return
			}
		case "random":
			if err := buildFile(dp, FileSpec{L: l, Writes: c.DestWrites}, now); err != nil {
				add("setup", "%v", err)
				return
			}
		}
		existed[i] = mode != "absent"
		if existed[i] {
			D, _ := readArchives(dp, l, c.From, until, now)
			for a, s := range exps[i].Series {
				if s == nil || D[a].Nil || len(D[a].S.Values) != len(s.Values) {
					continue
				}
				for k, v := range s.Values {
					if sameF(v, D[a].S.Values[k]) || v == D[a].S.Values[k] {
						preEqual++
					} else {
						preDiffer++
					}
				}
			}
		}
		for _, s := range exps[i].Series {
			if s != nil {
				for _, v := range s.Values {
					if v != v {
						nanInSum++
					}
				}
			}
		}
	}
	desc := fmt.Sprintf("now=%d item=%q src=%q dest=%q from=%d until=%d archive=%d layout=%s", now, c.ItemPattern, c.SrcPattern, c.DestRel, c.From, c.Until, c.ArchiveID, l)
	scc := &cmd.SumCopyCommand{SrcBase: base, DestBase: destBase, ItemPattern: c.ItemPattern, SrcPattern: c.SrcPattern, DestRelPath: c.DestRel,
		AggregationMethod: wt.AggregationMethod(l.Method), XFilesFactor: l.XFF, ArchiveInfoList: wtArchives(l),
		From: wt.Timestamp(c.From), Until: wt.Timestamp(c.Until), ArchiveID: c.ArchiveID, TextOut: filepath.Join(dir, "sumcopy.txt")}
	readonly := false
	for i := range items {
		if c.DestModes[i%len(c.DestModes)] == "readonly" {
			readonly = true
		}
	}
	asNobody := readonly && os.Geteuid() == 0
	if asNobody {
		// read-only destinations: the checks run as root, so the command runs under the effective uid of
		// "nobody" (restored right afterwards); it must either refuse or really store the sum
		os.Chmod(dir, 0755)
		filepath.Walk(destBase, func(p string, info os.FileInfo, err error) error {
			if err == nil && !info.IsDir() {
				os.Chmod(p, 0444)
			}
			return nil
		})
		os.Chmod(filepath.Join(dir, "sumcopy.txt"), 0666)
		os.WriteFile(filepath.Join(dir, "sumcopy.txt"), nil, 0666)
		os.Chmod(filepath.Join(dir, "sumcopy.txt"), 0666)
		if e := syscall.Seteuid(65534); e != nil {
			asNobody = false
		}
	}
	err, pm := runCommand(now, scc)
	if asNobody {
		syscall.Seteuid(0)
		filepath.Walk(destBase, func(p string, info os.FileInfo, err error) error {
			if err == nil && !info.IsDir() {
				os.Chmod(p, 0644)
			}
			return nil
		})
	}
	if pm != "" {
		add("sum-copy-panic", "sum-copy %s: panicked: %s", desc, pm)
		return
	}
	if err != nil && readonly {
		// refusing to write a read-only destination is the correct outcome
		ev.Count(HashJSON(c), false, "dest=readonly", "refused")
		return nil
	}
	if err != nil {
		add("sum-copy-error", "sum-copy %s: failed: %v", desc, err)
		return
	}
	checkDest := func(stage string) bool {
		for i, item := range items {
			dp := destPath(item)
			b, rerr := os.ReadFile(dp)
			if rerr != nil {
				add("dest-missing", "sum-copy %s: %s: destination of item %s does not exist", desc, stage, item)
				return false
			}
			if !existed[i] {
				if want := EncodeLayoutHeader(l); !bytes.Equal(b[:len(want)], want) {
					add("dest-created-layout", "sum-copy %s: created destination header differs from the requested layout", desc)
					return false
				}
			}
			A, _ := readArchives(dp, l, c.From, until, now)
			for a, s := range exps[i].Series {
				if s == nil {
					continue
				}
				if A[a].Nil || len(A[a].S.Values) != len(s.Values) || A[a].S.From != s.From {
					add("dest-window", "sum-copy %s: %s: item %s archive %d window mismatch", desc, stage, item, a)
					return false
				}
				for k, v := range s.Values {
					av := A[a].S.Values[k]
					if !(sameF(v, av) || v == av) {
						key := "dest-not-sum"
						add(key, "sum-copy %s: %s: item %s archive %d slot t=%d: sum %s, destination %s", desc, stage, item, a, s.From+int64(k)*s.Step, fstr(v), fstr(av))
						return false
					}
				}
			}
		}
		return true
	}
	if !checkDest("after sum-copy") {
		return
	}
	mkDiff := func(tag string) *cmd.SumDiffCommand {
		return &cmd.SumDiffCommand{SrcBase: base, ItemPattern: c.ItemPattern, SrcPattern: c.SrcPattern, DestBase: destBase, DestRelPath: c.DestRel,
			From: wt.Timestamp(c.From), Until: wt.Timestamp(c.Until), ArchiveID: c.ArchiveID, TextOut: filepath.Join(dir, "sumdiff-"+tag+".txt")}
	}
	derr, dpm := runCommand(now, mkDiff("clean"))
	if dpm != "" {
		add("sum-diff-panic", "sum-diff %s: panicked: %s", desc, dpm)
		return
	}
	if derr != nil {
		add("sum-diff-not-clean", "sum-diff %s right after sum-copy: %v\n%s", desc, derr, tail(readText(filepath.Join(dir, "sumdiff-clean.txt")), 600))
		return
	}
	// sum-copy again: nothing changes
	snap := map[string][]byte{}
	for _, item := range items {
		snap[item], _ = os.ReadFile(destPath(item))
	}
	if err2, pm2 := runCommand(now, scc); err2 != nil || pm2 != "" {
		add("repeat-fails", "sum-copy %s: repeated run failed: %v %s", desc, err2, pm2)
		return
	}
	for _, item := range items {
		if b, _ := os.ReadFile(destPath(item)); !bytes.Equal(b, snap[item]) {
			add("repeat-changes", "sum-copy %s: a repeated sum-copy changed the destination of item %s", desc, item)
			return
		}
	}
	// deviation: perturb the first item's destination and expect exactly those slots
	deviated := 0
	if len(c.Perturb) > 0 {
		dp := destPath(items[0])
		if err := modifyFile(dp, c.Perturb, now); err != nil {
			add("setup", "perturb: %v", err)
			return
		}
		D, _ := readArchives(dp, l, c.From, until, now)
		S := make([]fetchResult, len(l.Archives))
		for a := range S {
			if s := exps[0].Series[a]; s != nil {
				S[a] = fetchResult{S: *s}
			} else {
				S[a] = fetchResult{Nil: true}
			}
		}
		E, amb := expectedDiff(l, c.ArchiveID, S, D)
		deviated = len(E)
		derr, dpm := runCommand(now, mkDiff("dev"))
		if dpm != "" {
			add("sum-diff-panic", "sum-diff %s after perturbation: panicked: %s", desc, dpm)
			return
		}
		if len(E) > 0 && !errors.Is(derr, cmd.ErrDiffFound) {
			add("sum-diff-missed", "sum-diff %s: destination deviates from the sum in %d slots (first: archive %d t=%d sum %s dest %s) but the result is %v", desc, len(E), E[0].Arch, E[0].T, fstr(E[0].Src), fstr(E[0].Dst), derr)
			return
		}
		if len(E) == 0 && derr != nil {
			add("sum-diff-spurious", "sum-diff %s: no slot deviates but the result is %v", desc, derr)
			return
		}
		// listing of the first item
		recs := parseLTSV(readText(filepath.Join(dir, "sumdiff-dev.txt")))
		var first []Record
		n := 0
		for _, r := range recs {
			if _, ok := r["item"]; ok {
				n++
				continue
			}
			if n == 1 {
				first = append(first, r)
			}
		}
		lines, perr := parseDiffLines(first)
		if perr != "" {
			add("listing-unparsable", "sum-diff %s: %s", desc, perr)
			return
		}
		if d := sameDiffLines(lines, E, amb, false); d != "" {
			add("sum-diff-listing", "sum-diff %s: %s", desc, d)
			return
		}
	}
	// later on: every source file gets a newer point, the clock has moved on, and the SAME sum-copy value is executed
	// once more (a window "until now" means the now of each run); a fresh sum-diff must be clean again
	laterRun := false
	if c.Until == 0 && c.From <= now {
		st := l.Archives[0].Step
		now2 := now + st*int64(1+HashJSON(c)%3)
		if now2 < 1<<32-l.MaxRet() {
			laterRun = true
			// (the command value of the runs above may have been rebuilt from its flags: this one is used as it is, twice)
			same := *scc
			var err3 error
			pm3 := atClock(now, func() { err3 = same.Execute() })
			if err3 == nil && pm3 == "" {
				for _, f := range c.Files {
					if err := modifyFile(filepath.Join(base, f.Dir, f.Name), []SlotWrite{{Arch: 0, T: now2, V: 1}}, now2); err != nil {
						add("setup", "later write: %v", err)
						return
					}
				}
				pm3 = atClock(now2, func() { err3 = same.Execute() })
			}
			if err3 != nil || pm3 != "" {
				add("later-run-fails", "sum-copy %s: the same command executed again at clock %d (after a newer point was stored in every source) failed: %v %s", desc, now2, err3, pm3)
				return
			}
			d := mkDiff("later")
			var derr error
			dpm := atClock(now2, func() { derr = d.Execute() })
			if dpm != "" {
				add("sum-diff-panic", "sum-diff %s at the later clock %d: panicked: %s", desc, now2, dpm)
				return
			}
			if derr != nil {
				add("later-run-incomplete", "sum-copy %s: the same command value executed again at clock %d (after a point at t=%d was stored in every source) leaves sum-diff with: %v\n%s", desc, now2, now2, derr, tail(readText(filepath.Join(dir, "sumdiff-later.txt")), 600))
				return
			}
		}
	}
	nontrivial := preEqual > 0 && preDiffer > 0 && nanInSum > 0
	cls := []string{}
	if laterRun {
		cls = append(cls, "executed-again-later")
	}
	for i := range items {
		cls = append(cls, "dest="+c.DestModes[i%len(c.DestModes)])
	}
	if preEqual > 0 && preDiffer > 0 {
		cls = append(cls, "dest-partially-equal")
	}
	if nanInSum > 0 {
		cls = append(cls, "nan-in-sum")
	}
	if deviated > 0 {
		cls = append(cls, "deviation-listed")
	}
	if c.ArchiveID >= 0 {
		cls = append(cls, "single-archive")
	}
	_ = math.NaN
	ev.Count(HashJSON(c), nontrivial, cls...)
	if nontrivial && ev.WantSample() && len(c.Files) <= 3 {
		ev.Sample(c)
	}
	return nil
}

func genC11(t *rapid.T) C11Case {
	l := genCLILayout(t)
	now := genNowRealistic(t, l)
	c := C11Case{Now: now, ArchiveID: -1, DestRel: rapid.SampledFrom([]string{"sum.wsp", "out/sum.wsp"}).Draw(t, "destRel")}
	c.Files = genTree(t, l, now, false)
	c.ItemPattern, _ = genTreePatterns(t, c.Files)
	c.SrcPattern = rapid.SampledFrom([]string{"*.wsp", "*.wsp", "f?.wsp", "f[12].wsp", "f1.wsp"}).Draw(t, "srcPattern")
	n := rapid.IntRange(1, 3).Draw(t, "modes")
	for i := 0; i < n; i++ {
		c.DestModes = append(c.DestModes, rapid.SampledFrom([]string{"absent", "fresh", "first-file", "first-file", "random", "coarser-equal", "coarser-equal", "near-sum", "readonly"}).Draw(t, "destMode"))
	}
	c.DestWrites = genWrites(t, l, now, valDyadic, 10)
	k := rapid.IntRange(0, 3).Draw(t, "perturb")
	for i := 0; i < k; i++ {
		a := rapid.IntRange(0, len(l.Archives)-1).Draw(t, "pa")
		age := rapid.Int64Range(0, minI64(minI64(l.Archives[a].Ret(), l.MaxRet())-1, 30*l.Archives[a].Step)).Draw(t, "page")
		v := genDyadic(t)
		if rapid.IntRange(0, 4).Draw(t, "pnan") == 0 {
			v = math.NaN()
		}
		c.Perturb = append(c.Perturb, SlotWrite{Arch: a, T: now - age, V: F64(v)})
	}
	c.From, c.Until = genCLIWindow(t, l, now)
	if rapid.IntRange(0, 2).Draw(t, "oneArchive") == 0 {
		c.ArchiveID = rapid.IntRange(0, len(l.Archives)-1).Draw(t, "archive")
	}
	c.LinkDir = rapid.IntRange(0, 6).Draw(t, "linkDir") == 0
	return c
}

func TestC11(t *testing.T) {
	RunProperty(t, Property[C11Case]{
		NoteCases:   true,
		ID:          "C11",
		Rule:        "rapid-generated trees as in C10 (one layout, exactly summable values, NaN holes) x destination per item absent / fresh / copy of the first source file / unrelated content / equal to the sum in every coarser archive only; windows and archive selection as in C08; at a controlled clock: sum-copy, then the destination of every item is compared slot by slot (NaN included) with an independently computed sum, created files must carry the requested header, sum-diff must be clean, a repeated sum-copy must not change a byte; then 0-3 destination slots are perturbed through the library and sum-diff must report 'diff found' iff some slot deviates and list exactly the deviating slots of the first item. Finally (window until now) every source gets a newer point, and the SAME sum-copy value is executed once more at a later clock: a fresh sum-diff must be clean again. Non-trivial: a pre-existing destination with >=1 equal and >=1 differing slot and >=1 NaN in the sum. Distinct = hash of the case.",
		Assumptions: []string{"Z5: sum-diff with a missing side is not asserted", "cases whose item or file pattern matches nothing are C10's (discarded here)"},
		Gen:         genC11,
		Run:         runC11,
	})
}
