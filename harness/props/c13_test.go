package props

import (
	"fmt"
	"math"
	"os"
	"os/exec"
	"path/filepath"
	"runtime"
	"runtime/debug"
	"strconv"
	"strings"
	"sync"
	"sync/atomic"
	"syscall"
	"testing"
	"time"

	wt "github.com/hnakamur/whispertool"
	"pgregory.net/rapid"
)

// C13 - exclusive access: sessions on one file are serialized across handles; the lock lives
// exactly as long as a handle.
type C13Case struct {
	Kind string `json:"kind"` // lifetime | sessions
	// lifetime
	Mode  string `json:"mode,omitempty"`  // how Open/Create is made to fail (or "healthy")
	Cut   int    `json:"cut,omitempty"`   // truncation length
	Bytes []byte `json:"bytes,omitempty"` // file content for corrupt modes
	// sessions
	Writers int   `json:"writers,omitempty"`
	Readers int   `json:"readers,omitempty"`
	Rounds  int   `json:"rounds,omitempty"`
	Yields  []int `json:"yields,omitempty"` // per writer: 0 none, 1 Gosched, 2 sleep 1ms, 3 sleep 3ms
	XProc   bool  `json:"xproc,omitempty"`  // writers are separate processes
}

// sessionsWedged: a session round deadlocked; goroutines of it are still stuck, later rounds are not run.
var sessionsWedged bool

var c13Layout = Layout{Archives: []Arch{{Step: 1, Points: 1200}}, Method: 2, XFF: 0} // 14.4 KB: 4 pages

const c13Now = 1600000000
const c13CounterT = c13Now - 5

// countFDs counts descriptors of this process that refer to path.
func countFDs(path string) int {
	ents, _ := os.ReadDir("/proc/self/fd")
	n := 0
	for _, e := range ents {
		if l, err := os.Readlink("/proc/self/fd/" + e.Name()); err == nil && l == path {
			n++
		}
	}
	return n
}

// probeLock tries a non-blocking exclusive flock on a fresh descriptor.
func probeLock(path string) (free bool, err error) {
	fd, err := syscall.Open(path, syscall.O_RDONLY, 0)
	if err != nil {
		return false, err
	}
	defer syscall.Close(fd)
	err = syscall.Flock(fd, syscall.LOCK_EX|syscall.LOCK_NB)
	if err == nil {
		syscall.Flock(fd, syscall.LOCK_UN)
		return true, nil
	}
	if err == syscall.EWOULDBLOCK {
		return false, nil
	}
	return false, err
}

func runLifetime(c C13Case, ev *Evid) (fs []Finding) {
	add := func(key, format string, args ...interface{}) {
		fs = append(fs, Finding{Property: "C13", Key: key, Detail: fmt.Sprintf("mode=%s cut=%d: ", c.Mode, c.Cut) + fmt.Sprintf(format, args...)})
	}
	dir := scratchDir()
	defer os.RemoveAll(dir)
	path, _ := filepath.EvalSymlinks(dir)
	path = filepath.Join(path, "f.wsp")
	// the os.File finalizer would close a leaked descriptor at the next GC and hide the leak
	old := debug.SetGCPercent(-1)
	defer debug.SetGCPercent(old)

	valid := make([]byte, c13Layout.FileSize())
	copy(valid, EncodeLayoutHeader(c13Layout))
	var db *wt.Whisper
	var err error
	expectFail := true
	switch c.Mode {
	case "healthy-open", "healthy-open-spawn", "healthy-open-unprivileged", "healthy-open-double-close", "healthy-open-mode0444", "healthy-open-synced", "healthy-open-after-options", "healthy-open-replaced-while-waiting", "open-while-being-created", "recreate-while-held":
		os.WriteFile(path, valid, 0644)
		if c.Mode == "healthy-open-after-options" {
			// an earlier Open of ANOTHER file with non-default options (unlocked, read-only) in this process must
			// not change what a later default Open does
			other := filepath.Join(dir, "optioned.wsp")
			os.WriteFile(other, valid, 0644)
			if d, e := openWT(other, wt.WithoutFlock(), wt.WithOpenFileFlag(os.O_RDONLY)); e == nil {
				d.Close()
			}
		}
		if c.Mode == "healthy-open-mode0444" {
			// a file without any write-permission bit (an archived metric): the checks run as root, whose default
			// Open still gets a writable descriptor - and must still hold the file exclusively
			os.Chmod(path, 0444)
		}
		db, err = openWT(path)
		expectFail = false
		if err == nil && c.Mode == "healthy-open-synced" {
			// the lock lives as long as the handle, not until its first Sync (copy into a new file Syncs the
			// header first and keeps writing through the same handle)
			updateWT(db, 0, 1500000000, 1, 1500000000)
			if serr := db.Sync(); serr != nil {
				db.Close()
				add("healthy-fails", "Sync: %v", serr)
				return
			}
		}
	case "healthy-create":
		db, err = createWT(path, c13Layout)
		expectFail = false
	case "open-empty":
		os.WriteFile(path, nil, 0644)
		db, err = openWT(path)
	case "open-truncated":
		os.WriteFile(path, valid[:c.Cut], 0644)
		db, err = openWT(path)
	case "open-corrupt":
		os.WriteFile(path, c.Bytes, 0644)
		db, err = openWT(path)
		expectFail = false // may or may not be valid; judged by the outcome
		if err != nil {
			expectFail = true
		}
	case "open-short-body":
		os.WriteFile(path, valid[:28+c.Cut], 0644)
		db, err = openWT(path)
	case "create-readonly-flag":
		// the descriptor is obtained, then Truncate fails on the read-only descriptor
		db, err = createWT(path, c13Layout, wt.WithOpenFileFlag(os.O_RDONLY|os.O_CREATE))
	case "create-exists":
		os.WriteFile(path, valid, 0644)
		db, err = createWT(path, c13Layout)
	case "create-bad-arguments":
		// a Create that fails on what it was asked to lay out (an archive list no file can have, an unknown
		// aggregation method, an xFilesFactor outside [0,1]): on a new path, or in place over an existing file
		var opts []wt.Option
		if c.Cut%2 == 1 {
			os.WriteFile(path, valid, 0644)
			opts = append(opts, wt.WithOpenFileFlag(os.O_RDWR))
		}
		good := wtArchives(c13Layout)
		m, x, list := wt.AggregationMethod(c13Layout.Method), float32(0.5), good
		switch c.Cut / 2 % 6 {
		case 0:
			list = nil
		case 1:
			list = wtArchives(Layout{Archives: []Arch{{Step: 60, Points: 10}, {Step: 1, Points: 30}}})
		case 2:
			m = 0
		case 3:
			x = 2
		case 4:
			x = float32(math.NaN())
		default:
			list = wtArchives(Layout{Archives: []Arch{{Step: 2, Points: 10}, {Step: 3, Points: 30}}})
		}
		if pm := guard(func() { db, err = wt.Create(path, list, m, x, opts...) }); pm != "" {
			err = fmt.Errorf("PANIC in Create: %s", pm)
		}
		if err == nil {
			// (accepting such arguments is C07's business, not a lifetime matter)
			db.Close()
			ev.Count(HashJSON(c), false, "mode="+c.Mode, "created-anyway")
			return nil
		}
	}
	if strings.HasPrefix(fmt.Sprint(err), "PANIC") {
		add("panic", "%v", err)
		return
	}
	if expectFail {
		if err == nil {
			db.Close()
			if c.Mode == "open-corrupt" {
				ev.Count(HashJSON(c), false, "mode="+c.Mode, "opened-anyway")
				return nil
			}
			add("should-fail", "Open/Create succeeded")
			return
		}
		if !fileExists(path) {
			if c.Mode == "create-exists" {
				add("existing-file-removed", "Create on an existing path failed (%v) and the existing file is gone", err)
				return
			}
			ev.Count(HashJSON(c), true, "mode="+c.Mode)
			return nil
		}
		if c.Mode == "create-exists" {
			if b, _ := os.ReadFile(path); !bytesEq(b, valid) {
				add("existing-file-modified", "Create on an existing path failed (%v) but changed the existing file", err)
				return
			}
		}
		if n := countFDs(path); n != 0 {
			add("descriptor-leak", "the failed call (%v) left %d open descriptor(s) on the file", err, n)
			return
		}
		free, perr := probeLock(path)
		if perr != nil {
			add("probe-error", "%v", perr)
			return
		}
		if !free {
			add("lock-leak", "the failed call (%v) left the file locked: a non-blocking flock on a fresh descriptor is refused", err)
			return
		}
		// and a later Open of the same path is not blocked: repair the file and open it with a deadline
		os.WriteFile(path, valid, 0644)
		done := make(chan error, 1)
		go func() {
			d, e := openWT(path)
			if e == nil {
				d.Close()
			}
			done <- e
		}()
		select {
		case e := <-done:
			if e != nil {
				add("later-open-fails", "Open of the repaired file failed: %v", e)
			}
		case <-time.After(5 * time.Second):
			add("later-open-blocked", "a later Open of the same path is still blocked after 5 s")
		}
		ev.Count(HashJSON(c), true, "mode="+c.Mode)
		return
	}
	// healthy handle: the lock is held exactly while the handle lives
	if err != nil {
		add("healthy-fails", "%v", err)
		return
	}
	if n := countFDs(path); n != 1 {
		db.Close()
		add("descriptor-count", "%d descriptors on the file while one handle is open", n)
		return
	}
	free, perr := probeLock(path)
	if perr != nil || free {
		db.Close()
		add("not-locked", "a non-blocking exclusive flock succeeds while a default-option handle is open (err %v): the file is not exclusively locked", perr)
		return
	}
	if c.Mode == "healthy-open-unprivileged" {
		// an opener that may read but not write the file (the checks run as root: the effective uid is switched to
		// "nobody" around the attempt) must not obtain a handle while the first one is open either; being
		// refused outright is fine
		os.Chmod(filepath.Dir(path), 0755)
		os.Chmod(path, 0444)
		if e := syscall.Seteuid(65534); e != nil {
			db.Close()
			ev.Count(HashJSON(c), false, "mode="+c.Mode, "cannot-drop-privileges")
			return
		}
		gotHandle := int32(0)
		done := make(chan struct{})
		go func() {
			d, e := openWT(path)
			if e == nil {
				atomic.StoreInt32(&gotHandle, 1)
				d.Close()
			}
			close(done)
		}()
		hold := time.Duration(5+c.Cut%20) * time.Millisecond
		time.Sleep(hold)
		early := atomic.LoadInt32(&gotHandle) == 1
		syscall.Seteuid(0)
		db.Close()
		select {
		case <-done:
		case <-time.After(5 * time.Second):
			add("second-open-stuck", "an unprivileged Open did not return within 5 s after the first handle was closed")
			return
		}
		if early {
			add("second-open-early", "mode=%s: an Open by a user who may only read the file returned a handle while the first handle was still open (held for %v)", c.Mode, hold)
			return
		}
		ev.Count(HashJSON(c), true, "mode="+c.Mode)
		return
	}
	if c.Mode == "recreate-while-held" {
		// a Create in place (another layout, another size) arrives while a handle holds the file: it waits like an
		// Open does, and until the holder closes, the file is the holder's - not a byte of it changes
		updateWT(db, 0, 1500000000, 5, 1500000000)
		if serr := db.Sync(); serr != nil {
			db.Close()
			add("healthy-fails", "Sync: %v", serr)
			return
		}
		before, _ := os.ReadFile(path)
		other := Layout{Archives: []Arch{{Step: 1, Points: 5}}, Method: 2}
		if c.Cut%2 == 1 {
			other = Layout{Archives: []Arch{{Step: 1, Points: 1200}, {Step: 60, Points: 2000}}, Method: 1, XFF: 0.5}
		}
		type res struct {
			d   *wt.Whisper
			err error
		}
		got := make(chan res, 1)
		go func() {
			d, e := createWT(path, other, wt.WithOpenFileFlag(os.O_RDWR))
			got <- res{d, e}
		}()
		time.Sleep(time.Duration(20+c.Cut%40) * time.Millisecond)
		select {
		case r := <-got:
			db.Close()
			if r.err == nil {
				r.d.Close()
				add("second-open-early", "a Create in place returned a handle while another handle was still open")
				return
			}
			ev.Count(HashJSON(c), true, "mode="+c.Mode, "create-refused")
			return nil
		default:
		}
		during, _ := os.ReadFile(path)
		if !bytesEq(before, during) {
			db.Close()
			if r := <-got; r.err == nil {
				r.d.Close()
			}
			add("changed-while-held", "a Create in place that is waiting for the lock changed the file under the handle that holds it: %d bytes before, %d bytes now (first difference at byte %d)", len(before), len(during), firstDiff(before, during))
			return
		}
		db.Close()
		select {
		case r := <-got:
			if r.err != nil {
				add("create-after-wait-fails", "the Create in place that waited for the lock failed: %v", r.err)
				return
			}
			r.d.Sync()
			r.d.Close()
			if st, _ := os.Stat(path); st == nil || st.Size() != other.FileSize() {
				add("create-after-wait-size", "after the waiting Create in place the file does not have the new layout's size %d", other.FileSize())
				return
			}
		case <-time.After(5 * time.Second):
			add("second-open-stuck", "a Create in place that waited for the lock did not return within 5 s after the holder closed")
			return
		}
		if n := countFDs(path); n != 0 {
			add("descriptor-leak", "%d descriptors remain after Close", n)
			return
		}
		ev.Count(HashJSON(c), true, "mode="+c.Mode)
		return
	}
	if c.Mode == "open-while-being-created" {
		// a reader arrives while the file is still being laid out: the creator holds the lock on the (still empty)
		// file, sizes it, writes the header, Syncs and releases; the reader, which waited for the lock, must then
		// open the complete, valid file - it observes the file as of a session boundary
		db.Close()
		os.Remove(path)
		os.WriteFile(path, nil, 0644)
		fd, ferr := syscall.Open(path, syscall.O_RDWR, 0)
		if ferr != nil || syscall.Flock(fd, syscall.LOCK_EX) != nil {
			add("setup", "cannot lock the empty file: %v", ferr)
			return
		}
		type res struct {
			d   *wt.Whisper
			err error
		}
		got := make(chan res, 1)
		go func() {
			d, e := openWT(path)
			got <- res{d, e}
		}()
		time.Sleep(time.Duration(30+c.Cut%40) * time.Millisecond) // let the reader reach the lock
		cdb, cerr := createWT(path, c13Layout, wt.WithOpenFileFlag(os.O_RDWR), wt.WithoutFlock())
		if cerr == nil {
			updateWT(cdb, 0, 1500000000, 7, 1500000000)
			cerr = cdb.Sync()
			cdb.Close()
		}
		syscall.Close(fd) // releases the creator's lock
		if cerr != nil {
			add("setup", "laying out the file: %v", cerr)
			return
		}
		select {
		case r := <-got:
			if r.err != nil {
				add("open-after-create-fails", "an Open that waited for the creator's lock failed on the complete, synced file: %v", r.err)
				return
			}
			rs := fetchWT(r.d, 0, 1499999999, 1500000000, 1500000000)
			r.d.Close()
			if rs.Err != nil || rs.Nil || len(rs.S.Values) < 1 || rs.S.Values[0] != 7 {
				add("open-after-create-stale", "an Open that waited for the creator's lock does not see what the creator synced (err %v nil %v values %v)", rs.Err, rs.Nil, rs.S.Values)
				return
			}
		case <-time.After(5 * time.Second):
			add("second-open-stuck", "an Open that waited for the creator's lock did not return within 5 s after its release")
			return
		}
		ev.Count(HashJSON(c), true, "mode="+c.Mode)
		return
	}
	if c.Mode == "healthy-open-replaced-while-waiting" {
		// a second Open waits for the lock; meanwhile the path is replaced by another file (rename over it, as a
		// writer that rebuilds a metric atomically does); the first handle is closed and the second Open returns.
		// Whichever file that handle is on: IF it is the file now at the path, that file must be locked.
		type res struct {
			d   *wt.Whisper
			err error
		}
		got := make(chan res, 1)
		go func() {
			d, e := openWT(path)
			got <- res{d, e}
		}()
		time.Sleep(time.Duration(30+c.Cut%50) * time.Millisecond) // let it reach the lock
		repl := filepath.Join(dir, "replacement.wsp")
		os.WriteFile(repl, valid, 0644)
		if err := os.Rename(repl, path); err != nil {
			db.Close()
			add("setup", "rename: %v", err)
			return
		}
		db.Close()
		var r res
		select {
		case r = <-got:
		case <-time.After(5 * time.Second):
			add("second-open-stuck", "an Open that waited for the lock did not return within 5 s after the holder closed (the path had been replaced meanwhile)")
			return
		}
		if r.err != nil {
			ev.Count(HashJSON(c), true, "mode="+c.Mode, "waiting-open-failed")
			return
		}
		// where does this handle write?
		marker := 4242.5
		updateWT(r.d, 0, 1500000000, marker, 1500000000)
		r.d.Sync()
		onPath := false
		if rs, e := readArchives(path, c13Layout, 1499999999, 1500000000, 1500000000); e == nil && !rs[0].Nil && len(rs[0].S.Values) > 0 && rs[0].S.Values[0] == marker {
			onPath = true
		}
		if onPath {
			if free, _ := probeLock(path); free {
				r.d.Close()
				add("not-locked", "mode=%s: the Open that waited returned a handle on the file now at the path (its update shows there), but that file is not locked while the handle is open", c.Mode)
				return
			}
		}
		r.d.Close()
		ev.Count(HashJSON(c), true, "mode="+c.Mode, fmt.Sprintf("handle-on-current-file=%v", onPath))
		return
	}
	if c.Mode == "healthy-open-double-close" {
		// Close twice (defer + explicit Close is common): the second Close must not touch another handle that
		// meanwhile got the same descriptor number. X is closed, Y opened (lowest free descriptor), X closed
		// again; Y's file must still be locked
		other := filepath.Join(dir, "other.wsp")
		os.WriteFile(other, valid, 0644)
		db.Close()
		y, yerr := openWT(other)
		if yerr != nil {
			add("healthy-fails", "%v", yerr)
			return
		}
		guard(func() { db.Close() })
		free, perr := probeLock(other)
		if perr != nil || free {
			y.Close()
			add("lock-dropped-by-second-close", "closing an already closed handle again released the lock of ANOTHER open handle (probe err %v): its file is no longer exclusively locked", perr)
			return
		}
		y.Close()
		if free, _ := probeLock(other); !free {
			add("lock-leak", "the file is still locked after Close")
			return
		}
		ev.Count(HashJSON(c), true, "mode="+c.Mode)
		return
	}
	if c.Mode == "healthy-open-spawn" {
		// a process started while the handle is open (and still running) must not keep the lock alive
		child := exec.Command(os.Args[0], "-test.run", "^TestChildNoop$")
		child.Env = append(os.Environ(), "VERIF_CHILD=sleep", "VERIF_SLEEP_MS=4000")
		if err := child.Start(); err != nil {
			db.Close()
			add("setup", "cannot start a child process: %v", err)
			return
		}
		defer func() { child.Process.Kill(); child.Wait() }()
		time.Sleep(20 * time.Millisecond)
		db.Close()
		if free, perr := probeLock(path); perr != nil || !free {
			add("lock-leak", "the handle was closed but the file is still locked: a child process started while the handle was open inherited the locked descriptor (probe err %v)", perr)
			return
		}
		ev.Count(HashJSON(c), true, "mode="+c.Mode)
		return
	}
	// a second default Open must block until Close
	returned := int32(0)
	done := make(chan struct{})
	go func() {
		d, e := openWT(path)
		atomic.StoreInt32(&returned, 1)
		if e == nil {
			d.Close()
		}
		close(done)
	}()
	hold := time.Duration(5+c.Cut%20) * time.Millisecond
	if c.Cut >= 1000 {
		hold = time.Duration(c.Cut) * time.Millisecond // a holder that keeps the file for longer than any back-off budget
	}
	time.Sleep(hold)
	early := atomic.LoadInt32(&returned) == 1
	db.Close()
	select {
	case <-done:
	case <-time.After(5 * time.Second):
		add("second-open-stuck", "a second Open did not return within 5 s after the first handle was closed")
		return
	}
	if early {
		add("second-open-early", "a second Open returned while the first handle was still open (held for %v)", hold)
		return
	}
	if n := countFDs(path); n != 0 {
		add("descriptor-leak", "%d descriptors remain after Close", n)
		return
	}
	if free, _ := probeLock(path); !free {
		add("lock-leak", "the file is still locked after Close")
		return
	}
	ev.Count(HashJSON(c), true, "mode="+c.Mode)
	return
}

// oneSession performs open -> read counter -> yield -> write counter+1 (and stamp the whole
// archive with the new generation) -> Sync -> Close.
func oneSession(path string, yield int) error {
	db, err := wt.Open(path)
	if err != nil {
		return fmt.Errorf("open: %v", err)
	}
	ts, err := db.FetchFromArchive(0, wt.Timestamp(c13CounterT-1), wt.Timestamp(c13CounterT), wt.Timestamp(c13Now))
	if err != nil || ts == nil || len(ts.Values()) != 1 {
		db.Close()
		return fmt.Errorf("read counter: %v", err)
	}
	v := float64(ts.Values()[0])
	if v != v {
		v = 0
	}
	switch yield {
	case 1:
		runtime.Gosched()
	case 2:
		time.Sleep(time.Millisecond)
	case 3:
		time.Sleep(3 * time.Millisecond)
	}
	gen := v + 1
	pts := make([]wt.Point, 0, 1200)
	for i := int64(0); i < 1200; i++ {
		pts = append(pts, wt.Point{Time: wt.Timestamp(c13Now - i), Value: wt.Value(gen)})
	}
	if err := db.UpdatePointsForArchive(pts, 0, wt.Timestamp(c13Now)); err != nil {
		db.Close()
		return fmt.Errorf("update: %v", err)
	}
	if err := db.Sync(); err != nil {
		db.Close()
		return fmt.Errorf("sync: %v", err)
	}
	return db.Close()
}

// childMainC13 runs sessions in a separate process: args via env.
func childMainC13() {
	path := os.Getenv("VERIF_C13_PATH")
	rounds, _ := strconv.Atoi(os.Getenv("VERIF_C13_ROUNDS"))
	yield, _ := strconv.Atoi(os.Getenv("VERIF_C13_YIELD"))
	for i := 0; i < rounds; i++ {
		if err := oneSession(path, yield); err != nil {
			fmt.Fprintln(os.Stderr, "session error:", err)
			os.Exit(3)
		}
	}
}

func runSessions(c C13Case, ev *Evid) (fs []Finding) {
	add := func(key, format string, args ...interface{}) {
		fs = append(fs, Finding{Property: "C13", Key: key, Detail: fmt.Sprintf("writers=%d readers=%d rounds=%d xproc=%v yields=%v: ", c.Writers, c.Readers, c.Rounds, c.XProc, c.Yields) + fmt.Sprintf(format, args...)})
	}
	dir := scratchDir()
	defer os.RemoveAll(dir)
	path := filepath.Join(dir, "f.wsp")
	db, err := createWT(path, c13Layout)
	if err != nil {
		add("setup", "%v", err)
		return
	}
	db.Sync()
	db.Close()
	if sessionsWedged {
		add("sessions-deadlock", "(not run) an earlier session round in this process deadlocked")
		return
	}
	var wg sync.WaitGroup
	var mu sync.Mutex
	var children []*exec.Cmd
	var errs []string
	type span struct{ open, close time.Time }
	var spans []span
	start := make(chan struct{})
	stopReaders := int32(0)
	mixed := ""
	readsDone := int64(0)
	for w := 0; w < c.Writers; w++ {
		w := w
		wg.Add(1)
		go func() {
			defer wg.Done()
			<-start
			y := c.Yields[w%len(c.Yields)]
			if c.XProc {
				t0 := time.Now()
				cm := exec.Command(os.Args[0], "-test.run", "^TestChildNoop$")
				mu.Lock()
				children = append(children, cm)
				mu.Unlock()
				cm.Env = append(os.Environ(), "VERIF_CHILD=c13", "VERIF_C13_PATH="+path, "VERIF_C13_ROUNDS="+strconv.Itoa(c.Rounds), "VERIF_C13_YIELD="+strconv.Itoa(y))
				out, err := cm.CombinedOutput()
				mu.Lock()
				if err != nil {
					errs = append(errs, fmt.Sprintf("writer process %d: %v: %s", w, err, tail(string(out), 300)))
				}
				spans = append(spans, span{t0, time.Now()})
				mu.Unlock()
				return
			}
			for r := 0; r < c.Rounds; r++ {
				t0 := time.Now()
				err := oneSession(path, y)
				t1 := time.Now()
				mu.Lock()
				if err != nil {
					errs = append(errs, fmt.Sprintf("writer %d round %d: %v", w, r, err))
				}
				spans = append(spans, span{t0, t1})
				mu.Unlock()
			}
		}()
	}
	var rwg sync.WaitGroup
	for r := 0; r < c.Readers; r++ {
		rwg.Add(1)
		go func() {
			defer rwg.Done()
			<-start
			for atomic.LoadInt32(&stopReaders) == 0 {
				d, err := wt.Open(path)
				if err != nil {
					mu.Lock()
					errs = append(errs, fmt.Sprintf("reader open: %v", err))
					mu.Unlock()
					return
				}
				ts, err := d.FetchFromArchive(0, wt.Timestamp(c13Now-1200), wt.Timestamp(c13Now), wt.Timestamp(c13Now))
				d.Close()
				atomic.AddInt64(&readsDone, 1)
				if err != nil || ts == nil {
					mu.Lock()
					errs = append(errs, fmt.Sprintf("reader fetch: %v", err))
					mu.Unlock()
					return
				}
				first := math.NaN()
				for i, v := range ts.Values() {
					fv := float64(v)
					if i == 0 {
						first = fv
						continue
					}
					if !sameF(fv, first) {
						mu.Lock()
						if mixed == "" {
							mixed = fmt.Sprintf("a reader saw generation %v in slot 0 and %v in slot %d of one fetch", first, fv, i)
						}
						mu.Unlock()
						break
					}
				}
				runtime.Gosched()
			}
		}()
	}
	close(start)
	finished := make(chan struct{})
	go func() {
		wg.Wait()
		atomic.StoreInt32(&stopReaders, 1)
		rwg.Wait()
		close(finished)
	}()
	select {
	case <-finished:
	case <-time.After(120 * time.Second):
		// sessions that take milliseconds each did not finish in two minutes: somebody waits for a lock
		// that is never released
		mu.Lock()
		for _, cm := range children {
			if cm.Process != nil {
				cm.Process.Kill()
			}
		}
		mu.Unlock()
		add("sessions-deadlock", "%d writer and %d reader sessions did not finish within 120 s: an Open is waiting for a lock that is never released", c.Writers, c.Readers)
		sessionsWedged = true
		return
	}
	if len(errs) > 0 {
		add("session-error", "%s", strings.Join(errs, "; "))
		return
	}
	if mixed != "" {
		add("torn-read", "%s (a mixture of pages from before and after a Sync)", mixed)
		return
	}
	// final counter
	d, err := openWT(path)
	if err != nil {
		add("final-open", "%v", err)
		return
	}
	r := fetchWT(d, 0, c13CounterT-1, c13CounterT, c13Now)
	d.Close()
	want := float64(c.Writers * c.Rounds)
	if r.Err != nil || r.Nil || len(r.S.Values) != 1 || r.S.Values[0] != want {
		got := math.NaN()
		if len(r.S.Values) == 1 {
			got = r.S.Values[0]
		}
		add("lost-update", "%d increment sessions were run but the counter reads %v", c.Writers*c.Rounds, got)
		return
	}
	overlap := 0
	for i := range spans {
		for j := range spans {
			if i != j && spans[i].open.Before(spans[j].close) && spans[j].open.Before(spans[i].open) {
				overlap++
				break
			}
		}
	}
	cls := []string{"kind=sessions"}
	if c.XProc {
		cls = append(cls, "cross-process")
	}
	if c.Readers > 0 {
		cls = append(cls, "with-readers")
	}
	ev.ClassN("reader-fetches", int(readsDone))
	ev.Count(HashJSON(c)^uint64(time.Now().UnixNano()), overlap > 0, cls...) // every round is a distinct schedule
	if ev.WantSample() {
		ev.Sample(c)
	}
	return nil
}

func runC13(c C13Case, ev *Evid) []Finding {
	if c.Kind == "lifetime" {
		return runLifetime(c, ev)
	}
	return runSessions(c, ev)
}

func genC13(t *rapid.T) C13Case {
	if rapid.IntRange(0, 9).Draw(t, "kind") < 8 {
		c := C13Case{Kind: "lifetime"}
		c.Mode = rapid.SampledFrom([]string{"healthy-open", "healthy-create", "healthy-open-unprivileged", "healthy-open-double-close", "healthy-open-mode0444", "healthy-open-synced", "healthy-open-after-options", "healthy-open-replaced-while-waiting", "open-while-being-created", "recreate-while-held", "create-bad-arguments", "open-empty", "open-truncated", "open-truncated", "open-corrupt", "open-corrupt", "open-short-body", "create-readonly-flag", "create-exists"}).Draw(t, "mode")
		switch c.Mode {
		case "open-truncated":
			c.Cut = rapid.IntRange(1, 27).Draw(t, "cut")
		case "open-short-body":
			c.Cut = rapid.IntRange(0, 14000).Draw(t, "bodyCut")
		case "open-corrupt":
			c.Bytes, _ = mutateBytes(t, genValidBytes(t, "file"))
			if rapid.IntRange(0, 3).Draw(t, "bigCount") == 0 {
				// hundreds of archive infos: a header longer than a page, read in a second step
				c.Bytes = genBigCountFile(t)
			}
		default:
			c.Cut = rapid.IntRange(0, 100).Draw(t, "delay")
		}
		return c
	}
	c := C13Case{Kind: "sessions"}
	c.Writers = rapid.IntRange(2, 8).Draw(t, "writers")
	c.Readers = rapid.IntRange(0, 3).Draw(t, "readers")
	c.Rounds = rapid.IntRange(1, 6).Draw(t, "rounds")
	for i := 0; i < c.Writers; i++ {
		c.Yields = append(c.Yields, rapid.IntRange(0, 3).Draw(t, "yield"))
	}
	c.XProc = rapid.IntRange(0, 4).Draw(t, "xproc") == 0
	if c.XProc && c.Writers > 4 {
		c.Writers = 4
	}
	return c
}

func TestC13(t *testing.T) {
	RunProperty(t, Property[C13Case]{
		ID:          "C13",
		Rule:        "two kinds of generated cases. lifetime (80%): an Open or Create is made to fail after the descriptor was obtained (empty file, every truncation of a valid header, mutated / corrupt header bytes, body shorter than the header says, Create whose Truncate fails on a read-only descriptor, Create on an existing file) or succeeds (healthy); with the garbage collector disabled (so a finalizer cannot hide a leak) the harness counts /proc/self/fd links to the path, tries flock(LOCK_EX|LOCK_NB) on a fresh descriptor and opens the repaired path with a deadline; for healthy handles the probe must be refused while the handle lives, a second default Open must not return before Close (one fixed case holds the handle for 1.3 s), and both must succeed afterwards - also when a child process was started while the handle was open and is still running (one fixed case). sessions (20%): 2-8 concurrent open -> read counter -> generated yield -> stamp all 1200 slots (4 pages) with counter+1 -> Sync -> Close sessions x 1-6 rounds, as goroutines or as separate processes, with 0-3 readers fetching the whole archive in a loop; oracle: no session error, final counter == number of sessions, every reader fetch shows a single generation. Lifetime modes added later: Open while the file is being laid out, path replaced while an Open waits, a Create in place of another size arriving while a handle holds the file (not a byte may change until the holder closes), a Create that fails on its arguments (new path and in place). Non-trivial: lifetime cases where the file exists after the call; session rounds in which >=2 sessions overlapped in time (measured). Every session round counts as distinct (its schedule is not reproducible).",
		Assumptions: []string{"OS scheduling is not controlled: the session part is randomized stress, not an enumeration of interleavings", "flock semantics of the Linux kernel"},
		Gen:         genC13,
		Run:         runC13,
		Fixed: func() []C13Case {
			out := []C13Case{{Kind: "lifetime", Mode: "healthy-open", Cut: 1300}, {Kind: "lifetime", Mode: "healthy-open-spawn", Cut: 9}, {Kind: "lifetime", Mode: "create-exists"}, {Kind: "lifetime", Mode: "open-empty"}, {Kind: "lifetime", Mode: "create-readonly-flag"}, {Kind: "lifetime", Mode: "healthy-open", Cut: 7}, {Kind: "lifetime", Mode: "healthy-create", Cut: 3}}
			for cut := 1; cut < 28; cut += 3 {
				out = append(out, C13Case{Kind: "lifetime", Mode: "open-truncated", Cut: cut})
			}
			out = append(out, C13Case{Kind: "sessions", Writers: 4, Readers: 2, Rounds: 4, Yields: []int{2, 1, 3, 0}})
			out = append(out, C13Case{Kind: "sessions", Writers: 3, Readers: 1, Rounds: 2, Yields: []int{2, 2, 3}, XProc: true})
			return out
		},
	})
}
