package props

import (
	"bytes"
	"errors"
	"fmt"
	"os"
	"path/filepath"
	"strings"
	"sync/atomic"
	"syscall"
	"testing"
	"time"

	wt "github.com/hnakamur/whispertool"
	"github.com/hnakamur/whispertool/cmd"
	"pgregory.net/rapid"
)

// C12 - remote/local transparency: a server URL behaves like the directory it serves.
type C12Case struct {
	Now   int64      `json:"now"`
	Files []TreeFile `json:"files"` // the served subtree
	// destination side for diff / copy (local in both runs)
	DestFiles []TreeFile `json:"dest_files,omitempty"`
	Cmd       string     `json:"cmd"`               // view | view-raw | sum | diff | copy | sum-diff | sum-copy
	Rel       string     `json:"rel,omitempty"`     // file (or file glob) relative to the subtree
	Item      string     `json:"item,omitempty"`    // item pattern relative to the subtree
	Pattern   string     `json:"pattern,omitempty"` // file pattern inside an item
	From      int64      `json:"from"`
	Until     int64      `json:"until"`
	ArchiveID int        `json:"archive_id"`
	Header    bool       `json:"header"`
	Sort      bool       `json:"sort"`
	CopyNaN   bool       `json:"copy_nan"`
	// DestRemote (diff, sum-diff): in the remote run the destination base is the server URL too, so the
	// command's two concurrent reads hit one server
	DestRemote bool `json:"dest_remote,omitempty"`
	// WriterHolds (view, view-raw of an existing file): see runC12
	WriterHolds bool `json:"writer_holds,omitempty"`
	// Phase2: after the first comparison the served tree is changed (files added / removed) and the same
	// command is run and compared again against the same, long-running server
	AddFiles    []TreeFile `json:"add_files,omitempty"`
	RemoveFiles []string   `json:"remove_files,omitempty"`
	// ModFile / ModWrites: an existing served file gets further points (same size, usually the same second of
	// modification time) between the two runs (round 10, C18s)
	ModFile   string      `json:"mod_file,omitempty"`
	ModWrites []SlotWrite `json:"mod_writes,omitempty"`
}

var c12Counter int64

// serverWedged is set once a remote run did not return: the server (and this process) is then unusable.
var serverWedged string

func errClass(err error) string {
	switch {
	case err == nil:
		return "nil"
	case errors.Is(err, cmd.ErrDiffFound):
		return "diff-found"
	case errors.Is(err, os.ErrNotExist) || os.IsNotExist(err):
		return "not-exist"
	}
	return "error"
}

func snapshotTree(root string) map[string]string {
	out := map[string]string{}
	filepath.Walk(root, func(p string, info os.FileInfo, err error) error {
		if err == nil && !info.IsDir() {
			b, _ := os.ReadFile(p)
			rel, _ := filepath.Rel(root, p)
			out[rel] = string(b)
		}
		return nil
	})
	return out
}

func runC12(c C12Case, ev *Evid) (fs []Finding) {
	add := func(key, format string, args ...interface{}) {
		fs = append(fs, Finding{Property: "C12", Key: key, Detail: fmt.Sprintf(format, args...)})
	}
	root, url, err := startServer()
	if err != nil {
		panic("cannot start the whispertool server: " + err.Error())
	}
	sub := fmt.Sprintf("c%d", atomic.AddInt64(&c12Counter, 1))
	defer os.RemoveAll(filepath.Join(root, sub))
	defer os.RemoveAll(filepath.Join(root, "linked-"+sub))
	now := c.Now
	if err := buildTree(filepath.Join(root, sub), c.Files, now); err != nil {
		add("setup", "%v", err)
		return
	}
	os.MkdirAll(filepath.Join(root, sub), 0755)
	dir := scratchDir()
	defer os.RemoveAll(dir)
	l := c.Files[0].Spec.L
	// two identical destination trees (one per run)
	dests := []string{filepath.Join(dir, "destL"), filepath.Join(dir, "destR")}
	for _, d := range dests {
		os.MkdirAll(filepath.Join(d, sub), 0755)
		if err := buildTree(filepath.Join(d, sub), c.DestFiles, now); err != nil {
			add("setup", "%v", err)
			return
		}
	}
	rel := func(p string) string {
		if p == "" {
			return ""
		}
		return sub + "/" + p
	}
	mk := func(base, destBase, out string) cmd.Command {
		from, until := wt.Timestamp(c.From), wt.Timestamp(c.Until)
		switch c.Cmd {
		case "view":
			return &cmd.ViewCommand{SrcBase: base, SrcRelPath: rel(c.Rel), From: from, Until: until, ArchiveID: c.ArchiveID, ShowHeader: c.Header, TextOut: out}
		case "view-raw":
			return &cmd.ViewRawCommand{SrcBase: base, SrcRelPath: rel(c.Rel), From: from, Until: until, ArchiveID: c.ArchiveID, ShowHeader: c.Header, SortsByTime: c.Sort, TextOut: out}
		case "sum":
			return &cmd.SumCommand{SrcBase: base, ItemPattern: rel(c.Item), SrcPattern: c.Pattern, From: from, Until: until, ArchiveID: c.ArchiveID, ShowHeader: c.Header, TextOut: out}
		case "diff":
			return &cmd.DiffCommand{SrcBase: base, SrcRelPath: rel(c.Rel), DestBase: destBase, From: from, Until: until, ArchiveID: c.ArchiveID, TextOut: out}
		case "copy":
			return &cmd.CopyCommand{SrcBase: base, SrcRelPath: rel(c.Rel), DestBase: destBase, AggregationMethod: wt.AggregationMethod(l.Method), XFilesFactor: l.XFF, ArchiveInfoList: wtArchives(l),
				From: from, Until: until, ArchiveID: c.ArchiveID, CopyNaN: c.CopyNaN, TextOut: out}
		case "sum-copy":
			return &cmd.SumCopyCommand{SrcBase: base, ItemPattern: rel(c.Item), SrcPattern: c.Pattern, DestBase: destBase, DestRelPath: "sum.wsp", AggregationMethod: wt.AggregationMethod(l.Method), XFilesFactor: l.XFF,
				ArchiveInfoList: wtArchives(l), From: from, Until: until, ArchiveID: c.ArchiveID, TextOut: out}
		case "sum-diff":
			return &cmd.SumDiffCommand{SrcBase: base, ItemPattern: rel(c.Item), SrcPattern: c.Pattern, DestBase: destBase, DestRelPath: "sum.wsp", From: from, Until: until, ArchiveID: c.ArchiveID, TextOut: out}
		}
		panic("unknown cmd " + c.Cmd)
	}
	destRemote := c.DestRemote && c.Cmd == "diff" && !strings.ContainsAny(c.Rel, "*?[")
	dsub := "dest-" + sub
	if destRemote {
		// the destination tree is served too (same files as the local destination trees); both bases are
		// then the served root (directory / URL) and the destination is named by its relative path
		defer os.RemoveAll(filepath.Join(root, dsub))
		if err := buildTree(filepath.Join(root, dsub, sub), c.DestFiles, now); err != nil {
			add("setup", "%v", err)
			return
		}
		os.MkdirAll(filepath.Join(root, dsub, sub), 0755)
	}
	desc := fmt.Sprintf("%s now=%d rel=%q item=%q pattern=%q from=%d until=%d archive=%d header=%v sort=%v destRemote=%v", c.Cmd, now, c.Rel, c.Item, c.Pattern, c.From, c.Until, c.ArchiveID, c.Header, c.Sort, c.DestRemote)
	phase := 1
again:
	outL, outR := filepath.Join(dir, fmt.Sprintf("local%d.txt", phase)), filepath.Join(dir, fmt.Sprintf("remote%d.txt", phase))
	cmdL, cmdR := mk(root, dests[0], outL), mk(url, dests[1], outR)
	if destRemote {
		for i, cc := range []cmd.Command{cmdL, cmdR} {
			dc := cc.(*cmd.DiffCommand)
			dc.DestRelPath = dsub + "/" + dc.SrcRelPath
			dc.DestBase = []string{root, url}[i]
		}
	}
	if serverWedged != "" {
		add("remote-hang", "%s: (not run) the server stopped answering earlier in this process: %s", desc, serverWedged)
		return
	}
	var errL error
	var pmL string
	var writerDone chan struct{}
	if c.WriterHolds && phase == 1 && (c.Cmd == "view" || c.Cmd == "view-raw") && fileExists(filepath.Join(root, sub, c.Rel)) {
		// a writer (another descriptor) holds the file's lock while the read arrives through the server,
		// changes a slot and lets go: a read waits for the lock, so it shows the writer's committed state -
		// the state the local read, made afterwards, shows too
		held := make(chan struct{})
		writerDone = make(chan struct{})
		wp := filepath.Join(root, sub, c.Rel)
		go func() {
			defer close(writerDone)
			fd, err := syscall.Open(wp, syscall.O_RDWR, 0)
			if err == nil {
				syscall.Flock(fd, syscall.LOCK_EX)
			}
			close(held)
			time.Sleep(70 * time.Millisecond)
			if db, e := openWT(wp, wt.WithoutFlock()); e == nil {
				updateWT(db, 0, now, 424242.5, now)
				db.Sync()
				db.Close()
			}
			if err == nil {
				syscall.Close(fd)
			}
		}()
		<-held
	} else {
		errL, pmL = runCommand(now, cmdL)
	}
	var errR error
	var pmR string
	doneR := make(chan struct{})
	tt := curT
	go func() {
		defer close(doneR)
		saved := curT
		curT = tt
		errR, pmR = runCommand(now, cmdR)
		curT = saved
	}()
	select {
	case <-doneR:
	case <-time.After(300 * time.Second): // (90 s until round 10: tripped once on the unchanged tree while three heavy jobs shared the machine)
		// the local run returned at once; the same read through the server has not returned after 300 s
		serverWedged = desc
		add("remote-hang", "%s: the local run finished (%v) but the run against the server URL did not return within 300 s", desc, errL)
		return
	}
	if writerDone != nil {
		<-writerDone
		errL, pmL = runCommand(now, cmdL)
		desc = "(a writer held the file's lock while the remote read arrived, changed a slot and released it) " + desc
	}
	if pmL != "" {
		add("local-panic", "%s: the local run panicked: %s", desc, pmL)
		return
	}
	if pmR != "" {
		add("remote-panic", "%s: the remote run panicked: %s", desc, pmR)
		return
	}
	cl, cr := errClass(errL), errClass(errR)
	// diff / sum-diff / copy read both sides concurrently: when one read fails for another reason (here: an
	// archive id some file does not have) AND a side is missing, which error wins depends on goroutine
	// order - "diff found", "not-exist" and "error" are then all legitimate outcomes
	minArch := len(l.Archives)
	for _, f := range append(append([]TreeFile(nil), c.Files...), c.DestFiles...) {
		if n := len(f.Spec.L.Archives); n < minArch {
			minArch = n
		}
	}
	faulty := func(k string) bool { return k == "diff-found" || k == "error" || k == "not-exist" }
	// the same holds for sum-diff / sum-copy over source files of differing layouts (an error) when the other
	// side is missing or fails too
	mixedLayouts := false
	for _, f := range append(append([]TreeFile(nil), c.Files...), c.DestFiles...) {
		if f.Spec.L.String() != l.String() {
			mixedLayouts = true
		}
	}
	doubleFault := c.ArchiveID >= minArch || c.ArchiveID < -1 || ((c.Cmd == "sum-diff" || c.Cmd == "sum-copy") && mixedLayouts)
	if cl != cr && (c.Cmd == "diff" || c.Cmd == "sum-diff" || c.Cmd == "copy" || c.Cmd == "sum-copy") && doubleFault && faulty(cl) && faulty(cr) {
		ev.Count(HashJSON(c), false, "cmd="+c.Cmd, "order-dependent-double-fault")
		return nil
	}
	if cl != cr {
		add("class-mismatch", "%s: local result %s (%v), remote result %s (%v)", desc, cl, errL, cr, errR)
		return
	}
	// the two runs use separate (identical) destination trees: mask their base paths
	tl := strings.ReplaceAll(readText(outL), dests[0], "<dest>")
	tr := strings.ReplaceAll(readText(outR), dests[1], "<dest>")
	_ = dsub
	// err: records carry an error message (never compared, only the class) and name the side that
	// was missing; when BOTH sides of a file / item are missing, the side reported first depends on
	// goroutine order, so the side is masked for exactly those records (checked against the trees)
	maskErr := func(text string) string {
		lines := strings.Split(text, "\n")
		cur := ""
		for i, ln := range lines {
			if j := strings.Index(ln, "\tsrcRel:"); j >= 0 {
				cur = strings.SplitN(ln[j+len("\tsrcRel:"):], "\t", 2)[0]
			} else if j := strings.Index(ln, "\titem:"); j >= 0 {
				cur = strings.SplitN(ln[j+len("\titem:"):], "\t", 2)[0]
			}
			if !strings.HasPrefix(ln, "err:") {
				continue
			}
			srcMissing, destMissing := false, false
			if c.Cmd == "sum-diff" || c.Cmd == "sum-copy" {
				itemDir := strings.ReplaceAll(cur, ".", string(filepath.Separator))
				m, _ := filepath.Glob(filepath.Join(root, itemDir, c.Pattern))
				srcMissing = len(m) == 0
				destMissing = !fileExists(filepath.Join(dests[0], itemDir, "sum.wsp"))
			} else {
				srcMissing = !fileExists(filepath.Join(root, cur))
				destMissing = !fileExists(filepath.Join(dests[0], cur))
				if destRemote {
					destMissing = !fileExists(filepath.Join(root, dsub, cur))
				}
			}
			side := ""
			if j := strings.LastIndex(ln, "\tsrcOrDest:"); j >= 0 && !(srcMissing && destMissing) {
				side = ln[j:]
			}
			lines[i] = "err:<message>" + side
		}
		return strings.Join(lines, "\n")
	}
	tl, tr = maskErr(tl), maskErr(tr)
	if cl == "error" {
		// a failing command may have printed a prefix; only successful / classified runs are compared byte for byte
		tl, tr = "", ""
	}
	if tl != tr {
		i := firstDiff([]byte(tl), []byte(tr))
		lo := i - 200
		if lo < 0 {
			lo = 0
		}
		add("output-mismatch", "%s: text outputs differ at byte %d:\nlocal : %q\nremote: %q", desc, i, tail(tl[lo:], 500), tail(tr[lo:], 500))
		return
	}
	if c.Cmd == "copy" || c.Cmd == "sum-copy" {
		sl, sr := snapshotTree(dests[0]), snapshotTree(dests[1])
		if len(sl) != len(sr) {
			add("copy-dest-mismatch", "%s: %d destination files after the local run, %d after the remote run", desc, len(sl), len(sr))
			return
		}
		for k, v := range sl {
			if !bytes.Equal([]byte(v), []byte(sr[k])) {
				add("copy-dest-mismatch", "%s: destination %s differs between the local and the remote run", desc, k)
				return
			}
		}
	}
	if phase == 1 && (len(c.AddFiles) > 0 || len(c.RemoveFiles) > 0 || c.ModFile != "") {
		phase = 2
		if c.ModFile != "" {
			if err := modifyFile(filepath.Join(root, sub, c.ModFile), c.ModWrites, now); err != nil {
				add("setup", "phase 2 (modify): %v", err)
				return
			}
			desc = "(served file " + c.ModFile + " written to between the runs) " + desc
		}
		for _, rf := range c.RemoveFiles {
			os.Remove(filepath.Join(root, sub, rf))
		}
		if err := buildTree(filepath.Join(root, sub), c.AddFiles, now); err != nil {
			add("setup", "phase 2: %v", err)
			return
		}
		desc = "(second run after a tree change: +" + fmt.Sprint(len(c.AddFiles)) + " -" + fmt.Sprint(len(c.RemoveFiles)) + " files) " + desc
		if c.Cmd != "copy" && c.Cmd != "sum-copy" {
			goto again
		}
	}
	dataLines := 0
	for _, line := range strings.Split(tl, "\n") {
		if strings.HasPrefix(line, "archive:") {
			dataLines++
		}
	}
	nontrivial := dataLines > 0 || cl == "not-exist"
	cls := []string{"cmd=" + c.Cmd, "class=" + cl}
	if dataLines > 0 {
		cls = append(cls, "data-lines")
	}
	ev.Count(HashJSON(c), nontrivial, cls...)
	if nontrivial && ev.WantSample() && len(c.Files) <= 2 {
		ev.Sample(c)
	}
	return nil
}

func genC12(t *rapid.T) C12Case {
	l := genCLILayout(t)
	now := genNowRealistic(t, l)
	if rapid.IntRange(0, 9).Draw(t, "epochHigh") == 0 {
		// a clock after 2038: timestamps beyond 31 bits travel through the query string
		if hi := int64(1)<<32 - 4*l.MaxRet() - 1000000; hi > 1<<31 {
			now = rapid.Int64Range(1<<31-3, hi).Draw(t, "nowHigh")
		}
	}
	c := C12Case{Now: now, ArchiveID: -1}
	c.Files = genTree(t, l, now, rapid.IntRange(0, 5).Draw(t, "allowMismatch") == 0)
	if rapid.IntRange(0, 3).Draw(t, "oddNames") == 0 {
		// names with characters that need escaping in a query string (none is a glob metacharacter)
		odd := []string{"+", "&", " ", "%41", "=", "+&", "#", ";"}
		dirSuffix := rapid.SampledFrom(odd).Draw(t, "dirSuffix")
		fileInfix := rapid.SampledFrom(odd).Draw(t, "fileInfix")
		renameDir := rapid.Bool().Draw(t, "renameDir")
		for i := range c.Files {
			if renameDir {
				c.Files[i].Dir = c.Files[i].Dir + dirSuffix + "x"
			}
			c.Files[i].Name = strings.Replace(c.Files[i].Name, "f", "f"+fileInfix, 1)
		}
	}
	if rapid.IntRange(0, 7).Draw(t, "edgeSpace") == 0 {
		// names that BEGIN or END with white space (a directory " s1", a file "f1.wsp "): legal file names that a
		// parameter 'cleaned' on one side only would address differently (round 10, C12s)
		kind := rapid.IntRange(0, 2).Draw(t, "edgeSpaceKind")
		for i := range c.Files {
			if kind != 1 {
				c.Files[i].Dir = " " + c.Files[i].Dir
			}
			if kind != 0 {
				c.Files[i].Name = c.Files[i].Name + " "
			}
		}
	}
	if rapid.IntRange(0, 4).Draw(t, "prefixNames") == 0 {
		// sibling directories one of whose names is a prefix of the other, continued by a character that sorts
		// below the path separator ("web" / "web-01"): a listing sorted as whole paths differs from one sorted
		// level by level
		ren := map[string]string{"grp/a": "grp/web", "grp/b": "grp/web-01", "s1": "s", "s2": "s+2"}
		for i := range c.Files {
			if n, ok := ren[c.Files[i].Dir]; ok {
				c.Files[i].Dir = n
			}
		}
	}
	c.Cmd = rapid.SampledFrom([]string{"view", "view", "view-raw", "view-raw", "sum", "sum", "diff", "diff", "copy", "copy", "sum-diff", "sum-copy"}).Draw(t, "cmd")
	manyItems := false
	if rapid.IntRange(0, 14).Draw(t, "bigListing") == 0 {
		// listings of several kilobytes (more names than fit any one buffer / a single response chunk)
		tiny := Layout{Archives: []Arch{{Step: l.Archives[0].Step, Points: 3}}, Method: l.Method, XFF: l.XFF}
		if rapid.Bool().Draw(t, "manyItems") {
			manyItems = true
			n := rapid.IntRange(90, 220).Draw(t, "itemCount")
			for i := 0; i < n; i++ {
				c.Files = append(c.Files, TreeFile{Dir: fmt.Sprintf("many/item%03d", i), Name: "f1.wsp", Spec: FileSpec{L: tiny, Fill: 2, FillBase: F64(float64(i))}})
			}
		} else {
			d := c.Files[0].Dir
			n := rapid.IntRange(110, 260).Draw(t, "fileCount")
			for i := 0; i < n; i++ {
				c.Files = append(c.Files, TreeFile{Dir: d, Name: fmt.Sprintf("h%03d.wsp", i), Spec: FileSpec{L: c.Files[0].Spec.L, Fill: 2, FillBase: F64(float64(i))}})
			}
		}
	}
	pick := c.Files[rapid.IntRange(0, len(c.Files)-1).Draw(t, "pick")]
	exists := rapid.IntRange(0, 5).Draw(t, "exists") > 0
	switch c.Cmd {
	case "view", "view-raw":
		c.Rel = pick.Dir + "/" + pick.Name
		if !exists {
			c.Rel = rapid.SampledFrom([]string{pick.Dir + "/missing.wsp", "nodir/f1.wsp", pick.Dir}).Draw(t, "missingRel")
		}
	case "sum", "sum-diff", "sum-copy":
		c.Item, c.Pattern = genTreePatterns(t, c.Files)
		if manyItems {
			c.Item, c.Pattern = "many/*", "*.wsp"
		}
	case "diff", "copy":
		switch rapid.IntRange(0, 4).Draw(t, "relKind") {
		case 4:
			// a wildcard in a directory level: several directories' files in one listing
			if i := strings.LastIndexByte(pick.Dir, '/'); i >= 0 {
				c.Rel = pick.Dir[:i] + "/*/*.wsp"
			} else {
				c.Rel = "*/f?.wsp"
			}
		case 0:
			c.Rel = pick.Dir + "/*.wsp"
		case 1:
			c.Rel = filepath.Dir(pick.Dir+"/x") + "/f?.wsp"
		default:
			c.Rel = pick.Dir + "/" + pick.Name
		}
		if !exists {
			c.Rel = rapid.SampledFrom([]string{pick.Dir + "/missing.wsp", pick.Dir + "/zz*.wsp", "nodir/*.wsp"}).Draw(t, "missingRel")
		}
	}
	// destination side: perturbed copies of some source files
	if c.Cmd == "diff" || c.Cmd == "copy" || c.Cmd == "sum-diff" || c.Cmd == "sum-copy" {
		for _, f := range c.Files {
			switch rapid.IntRange(0, 3).Draw(t, "destKind") {
			case 0: // absent
			case 1:
				c.DestFiles = append(c.DestFiles, f)
			default:
				g := f
				g.Spec.Writes = append(append([]SlotWrite(nil), f.Spec.Writes...), genWrites(t, f.Spec.L, now, valDyadic, 5)...)
				c.DestFiles = append(c.DestFiles, g)
			}
		}
		if c.Cmd == "sum-diff" || c.Cmd == "sum-copy" {
			seen := map[string]bool{}
			for _, f := range c.Files {
				if !seen[f.Dir] && rapid.Bool().Draw(t, "sumDest") {
					seen[f.Dir] = true
					c.DestFiles = append(c.DestFiles, TreeFile{Dir: f.Dir, Name: "sum.wsp", Spec: FileSpec{L: f.Spec.L, Writes: f.Spec.Writes}})
				}
			}
		}
	}
	if c.Cmd == "diff" && rapid.IntRange(0, 1).Draw(t, "destRemote") == 0 {
		c.DestRemote = true
		if !strings.ContainsAny(c.Rel, "*?[") && rapid.Bool().Draw(t, "bigResponses") {
			// large responses on both sides keep the two concurrent handlers busy for longer
			big := Layout{Archives: []Arch{{Step: 1, Points: rapid.Int64Range(1500, 4000).Draw(t, "bigPoints")}}, Method: 2}
			for i := range c.Files {
				if c.Files[i].Dir+"/"+c.Files[i].Name == c.Rel {
					c.Files[i].Spec = FileSpec{L: big, Fill: big.Archives[0].Points, FillBase: 1}
				}
			}
			found := false
			for i := range c.DestFiles {
				if c.DestFiles[i].Dir+"/"+c.DestFiles[i].Name == c.Rel {
					c.DestFiles[i].Spec = FileSpec{L: big, Fill: big.Archives[0].Points, FillBase: 7}
					found = true
				}
			}
			if !found && exists {
				c.DestFiles = append(c.DestFiles, TreeFile{Dir: pick.Dir, Name: pick.Name, Spec: FileSpec{L: big, Fill: big.Archives[0].Points, FillBase: 7}})
			}
		}
	}
	if c.Cmd != "copy" && c.Cmd != "sum-copy" && rapid.IntRange(0, 3).Draw(t, "phase2") == 0 {
		// tree change below the pattern's first wildcard level, then the same command again
		n := rapid.IntRange(0, 2).Draw(t, "adds")
		for i := 0; i < n; i++ {
			f := c.Files[rapid.IntRange(0, len(c.Files)-1).Draw(t, "addLike")]
			c.AddFiles = append(c.AddFiles, TreeFile{Dir: f.Dir, Name: fmt.Sprintf("f%d.wsp", 7+i), Spec: FileSpec{L: f.Spec.L, Writes: genWrites(t, f.Spec.L, now, valDyadic, 5)}})
		}
		if rapid.Bool().Draw(t, "newDir") {
			f := c.Files[0]
			c.AddFiles = append(c.AddFiles, TreeFile{Dir: filepath.Dir(f.Dir+"/x") + "2", Name: "f1.wsp", Spec: f.Spec})
		}
		m := rapid.IntRange(0, 2).Draw(t, "removes")
		for i := 0; i < m && i < len(c.Files); i++ {
			f := c.Files[rapid.IntRange(0, len(c.Files)-1).Draw(t, "remove")]
			c.RemoveFiles = append(c.RemoveFiles, f.Dir+"/"+f.Name)
		}
	}
	if c.Cmd != "copy" && c.Cmd != "sum-copy" && len(c.RemoveFiles) == 0 && rapid.IntRange(0, 3).Draw(t, "modBetween") == 0 {
		f := pick
		if !exists || strings.ContainsAny(c.Rel, "*?[") || (c.Cmd != "view" && c.Cmd != "view-raw") {
			f = c.Files[rapid.IntRange(0, len(c.Files)-1).Draw(t, "modWhich")]
		}
		c.ModFile = f.Dir + "/" + f.Name
		c.ModWrites = genWrites(t, f.Spec.L, now, valDyadic, 5)
	}
	if !exists && (c.Cmd == "view" || c.Cmd == "view-raw" || c.Cmd == "diff") && strings.HasSuffix(c.Rel, ".wsp") && !strings.ContainsAny(c.Rel, "*?[") && rapid.Bool().Draw(t, "appearsLater") {
		// the file asked for in vain is there at the second run (a server must not remember that it was not)
		c.AddFiles = append(c.AddFiles, TreeFile{Dir: filepath.Dir(c.Rel), Name: filepath.Base(c.Rel), Spec: pick.Spec})
	}
	if (c.Cmd == "view" || c.Cmd == "view-raw") && exists && rapid.IntRange(0, 15).Draw(t, "writerHolds") == 7 {
		c.WriterHolds = true
	}
	c.From, c.Until = genCLIWindow(t, l, now)
	switch r := rapid.IntRange(0, 9).Draw(t, "archiveSel"); {
	case r < 3:
		c.ArchiveID = rapid.IntRange(0, len(l.Archives)-1).Draw(t, "archive")
	case r == 3:
		c.ArchiveID = rapid.SampledFrom([]int{len(l.Archives), len(l.Archives) + 1, -2, -3, 100}).Draw(t, "badArchive")
	}
	c.Header = rapid.Bool().Draw(t, "header")
	c.Sort = rapid.Bool().Draw(t, "sort")
	c.CopyNaN = rapid.Bool().Draw(t, "copyNaN")
	return c
}

func TestC12(t *testing.T) {
	defer cleanupServerRoot()
	RunProperty(t, Property[C12Case]{
		NoteCases:   true,
		ID:          "C12",
		Rule:        "one in-process `whispertool server` over a per-process root; per case a fresh served subtree (1-3 directories x 1-6 files) and a command - view, view-raw, sum, diff and copy with the source side remote, sum-diff, file and item globs through them - run twice at the same controlled clock: with the directory and with the server URL as base, through real HTTP round trips. Existing and missing files / patterns, every window / archive selection (incl. out-of-range ids). Oracle (differential): same result class {nil, diff found, not-exist, other error}, byte-identical text output, and for copy byte-identical destination trees. Further modes: a writer holds the served file's lock while the remote read arrives; a file asked for in vain exists at the second run; a served file is written to between the two runs (same size, same second); the served root's name contains a colon (relative spelling); the quick tier runs as two processes, the second with DEBUG=1. Non-trivial: the compared output has >=1 data line, or the case is a not-exist case. Distinct = hash of the case.",
		Assumptions: []string{"error messages of the 'other error' class are not compared", "file and directory names from [a-z0-9/.] plus, in a quarter of the cases, one of + & space %41 = # ; (no glob metacharacters, no dots in directory names)"},
		Gen:         genC12,
		Run:         runC12,
	})
}
