package props

// Histories of writes / clock advances / sync / reopen, shared by C01, C02, C03, C05, C06.

import (
	"fmt"
	"math"
	"os"
	"path/filepath"
	"runtime"
	"sort"
	"time"

	wt "github.com/hnakamur/whispertool"
	"pgregory.net/rapid"
)

// Op is one step of a history (plain data, absolute times).
type Op struct {
	Kind    string   `json:"kind"` // update | batch | advance | sync | reopen | abandon
	ID      int      `json:"id,omitempty"`
	T       int64    `json:"t,omitempty"`
	V       F64      `json:"v,omitempty"`
	Points  []MPoint `json:"points,omitempty"`
	Advance int64    `json:"advance,omitempty"`
	Windows []Window `json:"windows,omitempty"`
}

type HistCase struct {
	L   Layout `json:"layout"`
	Now int64  `json:"now"`
	Ops []Op   `json:"ops"`
}

type histGenOpts struct {
	MaxOps        int
	AllowRejected bool // single updates outside the accepted range (C03)
	FuturePct     int  // share of future-dated batch points, percent
	StaleNamed    bool // single updates to a named archive older than that archive's retention (C01 stale laps)
	Windows       int  // generated windows per step
	Reopen        bool
	Abandon       bool
	UniqueValues  bool
	BigBatches    bool
	SyncHeavy     bool // more Sync / abandon / reopen steps (C05)
}

// normalizeBatch reorders points that fall into the same slot of the archive they are routed
// to so that, within such a group, supplied order == time order (stable). This keeps the batch
// out of don't-care zone Z2 ("supplied last" vs "latest timestamp" for distinct timestamps).
func normalizeBatch(l Layout, now int64, id int, pts []MPoint) []MPoint {
	m := NewModel(l)
	route := m.RouteBatch(pts, id, now)
	type key struct {
		a  int
		iv int64
	}
	groups := map[key][]int{}
	for i, p := range pts {
		if route[i] < 0 {
			continue
		}
		k := key{route[i], alignDown(p.T, l.Archives[route[i]].Step)}
		groups[k] = append(groups[k], i)
	}
	out := append([]MPoint(nil), pts...)
	for _, idxs := range groups {
		if len(idxs) < 2 {
			continue
		}
		sub := make([]MPoint, len(idxs))
		for j, i := range idxs {
			sub[j] = pts[i]
		}
		sort.SliceStable(sub, func(i, j int) bool { return sub[i].T < sub[j].T })
		for j, i := range idxs {
			out[i] = sub[j]
		}
	}
	return out
}

func genAge(t *rapid.T, l Layout, a int, allowOut bool, label string) int64 {
	// ages around every retention boundary, plus uniform in range
	var cands []int64
	for _, ar := range l.Archives {
		cands = append(cands, ar.Ret()-1, ar.Ret(), ar.Ret()+1, ar.Ret()-ar.Step, ar.Ret()-ar.Step+1)
	}
	cands = append(cands, 0, 1, 2)
	max := l.MaxRet() - 1
	if a >= 0 {
		max = l.Archives[a].Ret() - 1
	}
	var age int64
	switch rapid.IntRange(0, 9).Draw(t, label+"Kind") {
	case 0, 1, 2:
		age = rapid.SampledFrom(cands).Draw(t, label+"B")
	case 3:
		age = rapid.Int64Range(0, 3*l.Archives[0].Step+3).Draw(t, label+"Young")
	default:
		age = rapid.Int64Range(0, max).Draw(t, label)
	}
	if !allowOut {
		if age < 0 {
			age = 0
		}
		if age > l.MaxRet()-1 {
			age = l.MaxRet() - 1
		}
	}
	return age
}

var valueCounter int64

func genVal(t *rapid.T, unique bool, salt int) float64 {
	if unique {
		// unique per point so provenance is readable from fetch results
		return float64(rapid.IntRange(1, 1<<20).Draw(t, "uv")) + float64(salt%1000)/1024
	}
	return genValue(t)
}

func genBatchPoints(t *rapid.T, l Layout, now int64, id int, o histGenOpts) []MPoint {
	a := id
	if a < 0 {
		a = rapid.IntRange(0, len(l.Archives)-1).Draw(t, "focusArch")
	}
	ar := l.Archives[a]
	var pts []MPoint
	kind := rapid.IntRange(0, 9).Draw(t, "batchKind")
	switch {
	case kind == 0 && (ar.Points <= 400 || (o.BigBatches && ar.Points <= 8000)):
		// cover the archive's whole (now-ret, now] range: for step > 1 and now not at the last
		// second of a step this spans N+1 intervals of a ring of N (ring self-overwrite)
		stride := ar.Step
		if rapid.Bool().Draw(t, "dense") && ar.Step > 1 && ar.Ret() <= 600 {
			stride = 1
		}
		if ar.Points > 400 {
			// thousands of slots: one drawn base value, the rest derived (a draw per point would make the
			// case - and rapid's bookkeeping for it - enormous)
			base := genVal(t, o.UniqueValues, 0)
			for age := ar.Ret() - 1; age >= 0; age -= stride {
				pts = append(pts, MPoint{T: now - age, V: F64(base + float64(len(pts))*0.5)})
			}
		} else {
			for age := ar.Ret() - 1; age >= 0; age -= stride {
				pts = append(pts, MPoint{T: now - age, V: F64(genVal(t, o.UniqueValues, len(pts)))})
			}
		}
		if ar.Ret()-1 > 0 && rapid.Bool().Draw(t, "withNow") {
			pts = append(pts, MPoint{T: now, V: F64(genVal(t, o.UniqueValues, len(pts)))})
		}
	case kind == 1:
		// exactly one stale point (for the focus archive) plus fresh ones
		n := rapid.IntRange(1, 6).Draw(t, "fresh")
		pts = append(pts, MPoint{T: now - ar.Ret() - rapid.Int64Range(0, 2).Draw(t, "staleBy"), V: F64(genVal(t, o.UniqueValues, 0))})
		for i := 0; i < n; i++ {
			pts = append(pts, MPoint{T: now - rapid.Int64Range(0, ar.Ret()-1).Draw(t, "age"), V: F64(genVal(t, o.UniqueValues, i+1))})
		}
	default:
		max := 24
		if o.BigBatches && kind == 2 {
			max = 200
		}
		n := rapid.IntRange(0, max).Draw(t, "batchLen")
		for i := 0; i < n; i++ {
			var age int64
			r := rapid.IntRange(0, 99).Draw(t, "ageClass")
			switch {
			case r < o.FuturePct:
				age = -rapid.Int64Range(1, 3*ar.Step+2).Draw(t, "future")
			case r < 70:
				age = genAge(t, l, a, false, "age")
			case r < 74 && len(pts) > 1: // an earlier point supplied once more, unchanged (A .. B .. A)
				p := pts[rapid.IntRange(0, len(pts)-1).Draw(t, "repeatOf")]
				pts = append(pts, p)
				continue
			case r < 80 && len(pts) > 0: // duplicate of an earlier point's time or slot
				p := pts[rapid.IntRange(0, len(pts)-1).Draw(t, "dupOf")]
				age = now - p.T
				if rapid.Bool().Draw(t, "sameSlotOnly") {
					age = now - (alignDown(p.T, ar.Step) + rapid.Int64Range(0, ar.Step-1).Draw(t, "inSlot"))
				}
			default:
				age = genAge(t, l, -1, true, "anyAge")
			}
			if now-age < 1 {
				age = now - 1
			}
			// zone Z7: no timestamp within two coarsest steps of 2^32 (interval arithmetic would wrap)
			if hiT := int64(math.MaxUint32) - 2*l.Archives[len(l.Archives)-1].Step - 1; now-age > hiT {
				age = now - hiT
				if age > 0 {
					age = 0
				}
			}
			pts = append(pts, MPoint{T: now - age, V: F64(genVal(t, o.UniqueValues, i))})
		}
	}
	if len(pts) > 1 && len(pts) <= 400 && rapid.IntRange(0, 3).Draw(t, "shuffle") > 0 {
		perm := rapid.Permutation(pts).Draw(t, "order")
		pts = perm
	}
	return normalizeBatch(l, now, id, pts)
}

// nanWritable: a write may carry the value NaN - a value like any other for the slot it lands in (copy -copy-nan
// and sum-copy store it). A stored NaN-valued point is a known value of its interval ("the values currently
// stored"): it counts towards xFilesFactor and enters sum / average / last / first as IEEE arithmetic has it.
// For max and min the outcome of comparing with NaN is not defined by the statement (zone Z8): there NaN is
// written only where it cannot reach an aggregation (the coarsest archive by name, a single-archive file).
func nanWritable(l Layout, id int, o histGenOpts) bool {
	if o.UniqueValues {
		return false
	}
	if l.Method != 4 && l.Method != 5 {
		return true
	}
	return len(l.Archives) == 1 || id == len(l.Archives)-1
}

func genWindows(t *rapid.T, l Layout, now int64, n int) []Window {
	var ws []Window
	for i := 0; i < n; i++ {
		ws = append(ws, genWindow(t, l, now, false))
	}
	return ws
}

// genHistory draws a history. The clock never leaves the domain of zone Z7.
func genHistory(t *rapid.T, l Layout, o histGenOpts) HistCase {
	return genHistoryAt(t, l, o, genNow(t, l))
}

// genHistoryAt draws a history starting at the given clock.
func genHistoryAt(t *rapid.T, l Layout, o histGenOpts, now int64) HistCase {
	c := HistCase{L: l, Now: now}
	coarse := l.Archives[len(l.Archives)-1].Step
	hi := int64(math.MaxUint32) - 2*coarse - 1
	n := rapid.IntRange(1, o.MaxOps).Draw(t, "ops")
	syncedOnce := false
	for i := 0; i < n; i++ {
		var op Op
		maxKind := 19
		if o.SyncHeavy {
			maxKind = 27
		}
		k := rapid.IntRange(0, maxKind).Draw(t, "opKind")
		if k >= 20 {
			if k < 24 {
				k = 16 // sync
			} else {
				k = 18 // abandon / reopen
			}
		}
		if k < 6 && len(c.Ops) > 0 && rapid.IntRange(0, 5).Draw(t, "repeatUpdate") == 0 {
			// re-issue an earlier single update verbatim: same interval, same value (a no-op for the slot,
			// but the coarser slots must still be recomputed from the current finer content)
			var prev []Op
			for _, p := range c.Ops {
				if p.Kind == "update" && p.T <= now && now-p.T < l.MaxRet() {
					prev = append(prev, p)
				}
			}
			if len(prev) > 0 {
				rp := prev[rapid.IntRange(0, len(prev)-1).Draw(t, "repeatOf")]
				op = Op{Kind: "update", ID: rp.ID, T: rp.T, V: rp.V}
				if o.Windows > 0 {
					op.Windows = genWindows(t, l, now, o.Windows)
				}
				c.Ops = append(c.Ops, op)
				continue
			}
		}
		switch {
		case k < 6:
			op.Kind = "update"
			op.ID = rapid.IntRange(-1, len(l.Archives)-1).Draw(t, "updID")
			age := genAge(t, l, -1, false, "updAge")
			if o.AllowRejected && rapid.IntRange(0, 4).Draw(t, "rej") == 0 {
				age = rapid.SampledFrom([]int64{-1, -2, l.MaxRet(), l.MaxRet() + 1, l.MaxRet() - 1, now - 1, now - 1000, 1 << 31, 1<<31 + 1, 1<<31 - 1}).Draw(t, "rejAge")
				if age >= now {
					age = now - 1
				}
			}
			if op.ID >= 0 && !o.StaleNamed && age >= l.Archives[op.ID].Ret() {
				age = rapid.Int64Range(0, l.Archives[op.ID].Ret()-1).Draw(t, "updAgeNamed")
			}
			op.T = now - age
			op.V = F64(genVal(t, o.UniqueValues, i))
			if nanWritable(l, op.ID, o) && rapid.IntRange(0, 5).Draw(t, "nanUpdate") == 0 {
				op.V = F64(math.NaN())
			}
		case k < 12:
			op.Kind = "batch"
			op.ID = rapid.IntRange(-1, len(l.Archives)-1).Draw(t, "batchID")
			op.Points = genBatchPoints(t, l, now, op.ID, o)
			if nanWritable(l, op.ID, o) && len(op.Points) > 0 && len(op.Points) <= 400 && rapid.IntRange(0, 3).Draw(t, "nanBatch") == 0 {
				for j := range op.Points {
					if rapid.IntRange(0, 2).Draw(t, "nanPoint") == 0 {
						op.Points[j].V = F64(math.NaN())
					}
				}
			}
		case k < 16:
			op.Kind = "advance"
			a := l.Archives[rapid.IntRange(0, len(l.Archives)-1).Draw(t, "advArch")]
			switch rapid.IntRange(0, 5).Draw(t, "advKind") {
			case 0:
				op.Advance = 1
			case 1:
				op.Advance = a.Step
			case 2:
				op.Advance = rapid.Int64Range(1, a.Ret()).Draw(t, "adv")
			case 3:
				op.Advance = a.Ret() + rapid.Int64Range(-1, 1).Draw(t, "advD")
			case 4:
				op.Advance = rapid.Int64Range(a.Ret(), 3*l.MaxRet()).Draw(t, "advLong")
			default:
				op.Advance = rapid.Int64Range(1, 2*a.Step).Draw(t, "advShort")
			}
			if op.Advance < 1 {
				op.Advance = 1
			}
			if rapid.IntRange(0, 7).Draw(t, "clockStepsBack") == 0 {
				// the wall clock is stepped back (NTP): every call is judged by the clock it is given
				back := rapid.Int64Range(1, 2*a.Step+1).Draw(t, "back")
				if now-back > l.MaxRet()+coarse+1 {
					op.Advance = -back
				}
			}
			if now+op.Advance > hi {
				op.Advance = 1
				if now+1 > hi {
					op.Advance = 0
				}
			}
			now += op.Advance
		case k < 18:
			if o.Abandon && rapid.IntRange(0, 7).Draw(t, "createAgain") == 0 {
				op.Kind = "create-again"
				if syncedOnce && rapid.Bool().Draw(t, "recreateInPlace") {
					op.ID = 1 // in place, without O_EXCL, dropped before its first Sync
				}
			} else {
				op.Kind = "sync"
				syncedOnce = true
			}
		default:
			switch {
			case o.Abandon && syncedOnce && rapid.IntRange(0, 2).Draw(t, "abandon") > 0:
				op.Kind = "abandon"
				if rapid.IntRange(0, 3).Draw(t, "dropWithoutClose") == 0 {
					op.ID = 1 // the handle is not even closed: it becomes garbage
				}
			case o.Reopen:
				op.Kind = "reopen"
				syncedOnce = true
			default:
				op.Kind = "sync"
				syncedOnce = true
			}
		}
		if o.Windows > 0 {
			op.Windows = genWindows(t, l, now, o.Windows)
		}
		c.Ops = append(c.Ops, op)
	}
	return c
}

// histRunner applies ops to the real file and to the model in lock step.
type histRunner struct {
	prop string
	dir  string
	path string
	db   *wt.Whisper
	m    *Model
	// synced is the model state as of the last successful Sync (what must be on disk).
	synced *Model
	now    int64
	l      Layout
	step   int
	// per-history facts for non-triviality rules
	facts map[string]int
}

func newHistRunner(prop string, l Layout, now int64) (*histRunner, error) {
	h := &histRunner{prop: prop, l: l, now: now, m: NewModel(l), facts: map[string]int{}}
	h.dir = scratchDir()
	h.path = filepath.Join(h.dir, "f.wsp")
	db, err := createWT(h.path, l)
	if err != nil {
		os.RemoveAll(h.dir)
		return nil, err
	}
	h.db = db
	h.synced = NewModel(l)
	return h, nil
}

func (h *histRunner) close() {
	if h.db != nil {
		h.db.Close()
	}
	os.RemoveAll(h.dir)
}

// histFailStep remembers the step of the last finding so that a failing history can be trimmed.
var histFailStep = -1

func trimHist(c HistCase) HistCase {
	if histFailStep >= 0 && histFailStep+1 < len(c.Ops) {
		c.Ops = append([]Op(nil), c.Ops[:histFailStep+1]...)
	}
	return c
}

func (h *histRunner) finding(key, format string, args ...interface{}) Finding {
	histFailStep = h.step
	return Finding{Property: h.prop, Key: key, Detail: fmt.Sprintf("step %d now=%d: ", h.step, h.now) + fmt.Sprintf(format, args...)}
}

// apply runs one op on both sides; it returns findings that are visible at once (panics,
// errors, accept/reject disagreements).
func (h *histRunner) apply(op Op) (fs []Finding) {
	switch op.Kind {
	case "update":
		before := h.m.Clone()
		ok, arch := h.m.UpdateSingle(op.ID, op.T, float64(op.V), h.now)
		err, pm := updateWT(h.db, op.ID, op.T, float64(op.V), h.now)
		if pm != "" {
			fs = append(fs, h.finding("update-panic", "UpdatePointForArchive(id=%d t=%d v=%v) panicked: %s", op.ID, op.T, float64(op.V), pm))
			return
		}
		if ok && err != nil {
			fs = append(fs, h.finding("update-rejected", "update id=%d t=%d (age %d) rejected: %v; statement accepts it", op.ID, op.T, h.now-op.T, err))
			h.m = before
			return
		}
		if !ok && err == nil {
			fs = append(fs, h.finding("update-accepted", "update id=%d t=%d (age %d, maxRet %d) accepted; statement rejects it", op.ID, op.T, h.now-op.T, h.l.MaxRet()))
			return
		}
		if ok {
			h.facts["update"]++
			age := h.now - op.T
			for _, ar := range h.l.Archives {
				if age >= ar.Ret()-1 && age <= ar.Ret()+1 {
					h.facts["boundary-age"]++
				}
			}
			if op.ID >= 0 && age >= h.l.Archives[op.ID].Ret() {
				h.facts["stale-lap-write"]++
			}
			_ = arch
		} else {
			h.facts["rejected-update"]++
		}
	case "batch":
		route := h.m.RouteBatch(op.Points, op.ID, h.now)
		drop, keep := 0, 0
		for _, r := range route {
			if r < 0 {
				drop++
			} else {
				keep++
			}
		}
		if drop > 0 && keep > 0 {
			h.facts["mixed-batch"]++
		}
		if drop == 1 && keep > 0 {
			h.facts["one-stale-plus-fresh"]++
		}
		{
			seen := map[[2]int64]bool{}
			for i, p := range op.Points {
				if route[i] < 0 {
					continue
				}
				if p.T > h.now {
					h.facts["future-point"]++
				}
				k := [2]int64{int64(route[i]), alignDown(p.T, h.l.Archives[route[i]].Step)}
				if seen[k] {
					h.facts["same-slot-dup"]++
				}
				seen[k] = true
				for _, ar := range h.l.Archives {
					if d := h.now - p.T - ar.Ret(); d >= -1 && d <= 1 {
						h.facts["boundary-age"]++
					}
				}
			}
		}
		var pre *Model
		if _, short := viaShortAPIWould(op.ID, h.now); short {
			pre = h.m.Clone()
		}
		h.m.UpdateBatch(op.Points, op.ID, h.now)
		shortAPIReadings = shortAPIReadings[:0]
		err, pm := batchWT(h.db, append([]MPoint(nil), op.Points...), op.ID, h.now)
		if pre != nil && pm == "" && err == nil && len(shortAPIReadings) > 1 {
			// the call read the (ticking) clock more than once: its result must still be what ONE of those clock
			// values gives - routing some points by one reading and others by another matches none
			if raw, f := h.rawState(); len(f) == 0 && len(h.compareRawToModel(raw, h.m, -1)) > 0 {
				matched := false
				for _, c := range shortAPIReadings[1:] {
					m2 := pre.Clone()
					m2.UpdateBatch(op.Points, op.ID, c)
					if len(h.compareRawToModel(raw, m2, -1)) == 0 {
						h.m, matched = m2, true
						break
					}
				}
				if !matched {
					fs = append(fs, h.finding("batch-mixes-clock-readings", "UpdateMany(%d points) read the clock %d times (%v) and its result matches none of these clock values", len(op.Points), len(shortAPIReadings), shortAPIReadings))
					return
				}
			}
		}
		if pm != "" {
			fs = append(fs, h.finding("batch-panic", "UpdatePointsForArchive(%d points, id=%d) panicked: %s", len(op.Points), op.ID, pm))
			return
		}
		if err != nil {
			fs = append(fs, h.finding("batch-error", "UpdatePointsForArchive(%d points, id=%d) failed: %v", len(op.Points), op.ID, err))
			return
		}
		h.facts["batch"]++
	case "advance":
		h.now += op.Advance
		if op.Advance > h.l.Archives[0].Ret() {
			h.facts["jump>ret0"]++
		}
	case "sync":
		if err := h.db.Sync(); err != nil {
			fs = append(fs, h.finding("sync-error", "Sync failed: %v", err))
			return
		}
		h.synced = h.m.Clone()
		h.facts["sync"]++
	case "reopen":
		if err := h.db.Sync(); err != nil {
			fs = append(fs, h.finding("sync-error", "Sync failed: %v", err))
			return
		}
		h.synced = h.m.Clone()
		h.db.Close()
		db, err := openWT(h.path)
		if err != nil {
			fs = append(fs, h.finding("reopen-error", "Open after Sync+Close failed: %v", err))
			h.db = nil
			return
		}
		h.db = db
		h.facts["reopen"]++
	case "create-again":
		if op.ID == 1 {
			// Create in place over the existing, populated file (no O_EXCL, as a caller re-initialising a metric
			// does) and drop that handle before its first Sync: "the file's bytes change only during Sync"
			if err := h.db.Sync(); err != nil {
				fs = append(fs, h.finding("sync-error", "Sync: %v", err))
				return
			}
			h.synced = h.m.Clone()
			h.db.Close()
			before, _ := os.ReadFile(h.path)
			db2, cerr := createWT(h.path, h.l, wt.WithOpenFileFlag(os.O_RDWR))
			if cerr == nil {
				db2.Close()
			}
			after, _ := os.ReadFile(h.path)
			if string(after) != string(before) {
				h.db = nil
				fs = append(fs, h.finding("bytes-changed-outside-sync", "Create over the existing file (flag O_RDWR, result %v), closed before any Sync, changed the file's bytes (first difference at offset %d)", cerr, firstDiff(after, before)))
				return
			}
			db, err := openWT(h.path)
			if err != nil {
				h.db = nil
				fs = append(fs, h.finding("reopen-error", "Open after the abandoned re-create failed: %v", err))
				return
			}
			h.db = db
			h.facts["recreate-abandoned"]++
			h.facts["reopen"]++
			return
		}
		// a second Create (default, exclusive flags) of the path that already exists: must be refused, and
		// neither the file nor the live handle may be affected (checked by the callers' byte comparisons)
		before, _ := os.ReadFile(h.path)
		db2, err := createWT(h.path, h.l)
		if err == nil {
			db2.Close()
			fs = append(fs, h.finding("create-over-existing", "Create with default flags succeeded on an existing file"))
			return
		}
		after, rerr := os.ReadFile(h.path)
		if rerr != nil || string(after) != string(before) {
			fs = append(fs, h.finding("create-over-existing", "a refused Create (%v) changed or removed the existing file (%v)", err, rerr))
			return
		}
		h.facts["create-again"]++
	case "abandon":
		// drop the handle without Sync: the file must hold the last synced state
		if op.ID == 1 && h.facts["sync"]+h.facts["reopen"] > 0 {
			// not even closed: the handle becomes garbage and is collected (nothing may reach the disk then either)
			h.db = nil
			for i := 0; i < 3; i++ {
				runtime.GC()
				time.Sleep(2 * time.Millisecond)
			}
			db, err := openWT(h.path, wt.WithoutFlock()) // (the collected descriptor may still hold the lock)
			if err != nil {
				fs = append(fs, h.finding("reopen-error", "Open after the handle was dropped failed: %v", err))
				return
			}
			h.db = db
			h.m = h.synced.Clone()
			h.facts["abandon"]++
			h.facts["dropped-without-close"]++
			return
		}
		h.db.Close()
		if h.facts["sync"]+h.facts["reopen"] == 0 {
			// nothing was ever synced: the file holds no header yet, so the history ends here
			h.db = nil
			h.facts["abandon-before-first-sync"]++
			return
		}
		db, err := openWT(h.path)
		if err != nil {
			fs = append(fs, h.finding("reopen-error", "Open after abandon failed: %v", err))
			h.db = nil
			return
		}
		h.db = db
		h.m = h.synced.Clone()
		h.facts["abandon"]++
	}
	return
}

// rawState reads every archive's physical slots through the public raw dump.
func (h *histRunner) rawState() ([][]rawPoint, []Finding) {
	var out [][]rawPoint
	for a := range h.l.Archives {
		r, err, pm := rawWT(h.db, a)
		if pm != "" {
			return nil, []Finding{h.finding("raw-panic", "GetAllRawUnsortedPoints(%d) panicked: %s", a, pm)}
		}
		if err != nil {
			return nil, []Finding{h.finding("raw-error", "GetAllRawUnsortedPoints(%d): %v", a, err)}
		}
		if int64(len(r)) != h.l.Archives[a].Points {
			return nil, []Finding{h.finding("raw-count", "GetAllRawUnsortedPoints(%d) returned %d slots, archive has %d", a, len(r), h.l.Archives[a].Points)}
		}
		out = append(out, r)
	}
	return out, nil
}

// checkRawPlacement: every non-empty physical slot holds a step-aligned interval at index
// ((interval-base)/S) mod N (C01, C06).
func (h *histRunner) checkRawPlacement(raw [][]rawPoint) (fs []Finding) {
	for a, slots := range raw {
		ar := h.l.Archives[a]
		base := slots[0].T
		for j, s := range slots {
			if s.T == 0 {
				continue
			}
			if base == 0 {
				fs = append(fs, h.finding("raw-base-empty", "archive %d: slot %d holds interval %d but slot 0 (the base) is empty", a, j, s.T))
				return
			}
			if emod(s.T, ar.Step) != 0 {
				fs = append(fs, h.finding("raw-unaligned", "archive %d slot %d holds interval %d, not a multiple of step %d", a, j, s.T, ar.Step))
				return
			}
			want := emod(floorDiv(s.T-base, ar.Step), ar.Points)
			if want != int64(j) {
				fs = append(fs, h.finding("raw-misplaced", "archive %d: interval %d sits in physical slot %d, placement rule (base %d) says %d", a, s.T, j, base, want))
				return
			}
		}
	}
	return
}

// compareRawToModel: the set of (interval, value) pairs physically stored equals the model ring,
// stale laps included - so any slot changed without cause, or left unchanged wrongly, shows.
func (h *histRunner) compareRawToModel(raw [][]rawPoint, m *Model, onlyArchive int) (fs []Finding) {
	for a, slots := range raw {
		if onlyArchive >= 0 && a != onlyArchive {
			continue
		}
		ar := h.l.Archives[a]
		seen := 0
		for j, s := range slots {
			if s.T == 0 {
				continue
			}
			seen++
			cl := emod(floorDiv(s.T, ar.Step), ar.Points)
			ms, ok := m.Rings[a][cl]
			if !ok {
				fs = append(fs, h.finding("raw-extra", "archive %d slot %d holds (%d, %s); the model has nothing in that ring position", a, j, s.T, fstr(s.V)))
			} else if ms.interval != s.T || !sameF(ms.value, s.V) {
				fs = append(fs, h.finding("raw-differs", "archive %d slot %d holds (%d, %s); the model has (%d, %s)", a, j, s.T, fstr(s.V), ms.interval, fstr(ms.value)))
			}
			if len(fs) > 3 {
				return
			}
		}
		if seen != len(m.Rings[a]) {
			// find a model entry missing from the file
			have := map[int64]bool{}
			for _, s := range slots {
				if s.T != 0 {
					have[s.T] = true
				}
			}
			for _, ms := range m.Rings[a] {
				if !have[ms.interval] {
					fs = append(fs, h.finding("raw-missing", "archive %d: the model holds (%d, %s) but no physical slot does", a, ms.interval, fstr(ms.value)))
					break
				}
			}
		}
	}
	return
}

// projectRaw evaluates a window against the raw dump by the placement rule only.
func projectRaw(l Layout, raw [][]rawPoint, sh FetchShape) []float64 {
	ar := l.Archives[sh.Archive]
	slots := raw[sh.Archive]
	base := slots[0].T
	vals := make([]float64, 0, sh.Count)
	for t := sh.From; t < sh.Until; t += sh.Step {
		v := math.NaN()
		if base != 0 {
			s := slots[emod(floorDiv(t-base, ar.Step), ar.Points)]
			if s.T == t {
				v = s.V
			}
		}
		vals = append(vals, v)
	}
	return vals
}
