package props

// Sandboxed executor for hostile inputs (C15): the test binary re-executes itself as a child
// with RLIMIT_AS set; the parent sends one request at a time over a pipe and reads one response.
// A child that dies (fatal error: out of memory, stack overflow) is attributed to the request
// in flight and restarted.

import (
	"bufio"
	"bytes"
	"encoding/binary"
	"encoding/json"
	"fmt"
	"hash/fnv"
	"io"
	"net/http"
	"net/http/httptest"
	"os"
	"os/exec"
	"path/filepath"
	"runtime/debug"
	"runtime/metrics"
	"strconv"
	"sync"
	"syscall"
	"time"

	wt "github.com/hnakamur/whispertool"
	"github.com/hnakamur/whispertool/cmd"
)

type hostileReq struct {
	Target string `json:"target"`
	Data   []byte `json:"data"`
	// file target: operations after a successful Open
	Now int64 `json:"now,omitempty"`
	// http targets: Content-Length the hostile server announces (0 = the true length)
	Claim int64 `json:"claim,omitempty"`
	// http targets: status of the reply (0 = 200)
	Status int `json:"status,omitempty"`
	// http targets: body of the /items and /files listings ("" = one plain name)
	Listing string `json:"listing,omitempty"`
	// two-sided http targets: the peer is a real whispertool server over healthy files of the layout in Data, behind
	// a relay that alters the request's query this way before passing it on ("" = not relayed)
	Alter string `json:"alter,omitempty"`
}

type hostileResp struct {
	Panic   string `json:"panic,omitempty"`
	Err     string `json:"err,omitempty"`
	Decoded bool   `json:"decoded,omitempty"`
	Alloc   uint64 `json:"alloc"`
	Ns      int64  `json:"ns"`
	Where   string `json:"where,omitempty"`
	Died    string `json:"died,omitempty"`    // filled by the parent
	Timeout bool   `json:"timeout,omitempty"` // filled by the parent
	Hang    bool   `json:"hang,omitempty"`    // filled by the parent: the timeout was confirmed by a second, longer run
}

func heapAllocBytes() uint64 {
	s := []metrics.Sample{{Name: "/gc/heap/allocs:bytes"}}
	metrics.Read(s)
	if s[0].Value.Kind() == metrics.KindUint64 {
		return s[0].Value.Uint64()
	}
	return 0
}

var hostileSeq int

var (
	hostilePayloadMu sync.Mutex
	hostilePayload   []byte
	hostileClaim     int64
	hostileStatus    int
	hostileListing   string
	hostileAlter     string
	hostileSteps     []int64
	hostileServer    *httptest.Server
)

// relayAltered passes the request on to the real server of this process with its query altered: the reply is
// well-formed in every byte, only not the answer to what was asked (a peer of another version, a cache in between).
func relayAltered(w http.ResponseWriter, r *http.Request, alter string, steps []int64) {
	_, real, err := startServer()
	if err != nil {
		http.Error(w, err.Error(), 500)
		return
	}
	q := r.URL.Query()
	shift := func(name string, by int64) {
		if ts, err := wt.ParseTimestamp(q.Get(name)); err == nil && int64(ts)+by >= 0 {
			q.Set(name, wt.Timestamp(int64(ts)+by).String())
		}
	}
	if r.URL.Path == "/view" || r.URL.Path == "/sum" {
		switch alter {
		case "all-archives":
			q.Set("retention", "-1")
		case "next-archive":
			k, _ := strconv.Atoi(q.Get("retention"))
			q.Set("retention", strconv.Itoa((k+1)%len(steps)))
		case "until-minus-step":
			shift("until", -steps[0])
		case "until-minus-last-step":
			shift("until", -steps[len(steps)-1])
		case "from-plus-step":
			shift("from", steps[0])
		case "now-minus-hour":
			shift("now", -3600)
		case "now-plus-last-step":
			shift("now", steps[len(steps)-1])
		}
	}
	resp, err := http.Get(real + r.URL.Path + "?" + q.Encode())
	if err != nil {
		http.Error(w, err.Error(), 502)
		return
	}
	defer resp.Body.Close()
	for k, v := range resp.Header {
		if k != "Content-Length" {
			w.Header()[k] = v
		}
	}
	w.WriteHeader(resp.StatusCode)
	io.Copy(w, resp.Body)
}

func hostileURL() string {
	if hostileServer == nil {
		hostileServer = httptest.NewServer(http.HandlerFunc(func(w http.ResponseWriter, r *http.Request) {
			hostilePayloadMu.Lock()
			p := hostilePayload
			claim := hostileClaim
			status := hostileStatus
			alter, steps := hostileAlter, hostileSteps
			hostilePayloadMu.Unlock()
			if alter != "" && len(steps) > 0 {
				relayAltered(w, r, alter, steps)
				return
			}
			if status != 0 && claim == 0 {
				w.Header().Set("Content-Type", "application/octet-stream")
				w.WriteHeader(status)
				w.Write(p)
				return
			}
			if claim != 0 {
				body := p
				if r.URL.Path == "/items" || r.URL.Path == "/files" {
					body = []byte("item1\n")
				}
				if hj, ok := w.(http.Hijacker); ok {
					if conn, rw, err := hj.Hijack(); err == nil {
						fmt.Fprintf(rw, "HTTP/1.1 200 OK\r\nContent-Type: application/octet-stream\r\nContent-Length: %d\r\nConnection: close\r\n\r\n", claim)
						rw.Write(body)
						rw.Flush()
						conn.Close()
						return
					}
				}
			}
			if r.URL.Path == "/items" || r.URL.Path == "/files" {
				w.Header().Set("Content-Type", "text/plain")
				hostilePayloadMu.Lock()
				lst := hostileListing
				hostilePayloadMu.Unlock()
				if lst == "" {
					lst = "item1\n"
				}
				io.WriteString(w, lst)
				return
			}
			w.Header().Set("Content-Type", "application/octet-stream")
			w.Write(p)
		}))
	}
	return hostileServer.URL
}

// execHostile runs one request in this process.
func execHostile(req hostileReq, dir string) (resp hostileResp) {
	start := time.Now()
	before := heapAllocBytes()
	defer func() {
		resp.Ns = time.Since(start).Nanoseconds()
		resp.Alloc = heapAllocBytes() - before
	}()
	decode := func(name string, fresh func() codec) {
		obj := fresh()
		var err error
		resp.Where = name + ".TakeFrom"
		if pm := guard(func() { _, err = obj.TakeFrom(req.Data) }); pm != "" {
			resp.Panic = pm
			return
		}
		if err != nil {
			resp.Err = err.Error()
			return
		}
		resp.Decoded = true
		resp.Where = name + ".AppendTo(after decode)"
		if pm := guard(func() { obj.AppendTo(nil) }); pm != "" {
			resp.Panic = pm
		}
		if s, ok := obj.(fmt.Stringer); ok {
			resp.Where = name + ".String(after decode)"
			if pm := guard(func() { _ = s.String() }); pm != "" {
				resp.Panic = pm
			}
		}
	}
	switch req.Target {
	case "header":
		decode("Header", func() codec { return &wt.Header{} })
	case "series":
		decode("TimeSeries", func() codec { return &wt.TimeSeries{} })
	case "points":
		decode("Points", func() codec { return &wt.Points{} })
	case "point":
		decode("Point", func() codec { return &wt.Point{} })
	case "value":
		decode("Value", func() codec { return new(wt.Value) })
	case "timestamp":
		decode("Timestamp", func() codec { return new(wt.Timestamp) })
	case "duration":
		decode("Duration", func() codec { return new(wt.Duration) })
	case "archiveinfo":
		decode("ArchiveInfo", func() codec { return &wt.ArchiveInfo{} })
	case "file":
		// a fresh name per request: a panic inside Open leaves the descriptor (and its lock) behind
		hostileSeq++
		p := filepath.Join(dir, fmt.Sprintf("hostile-%d.wsp", hostileSeq))
		os.WriteFile(p, req.Data, 0644)
		defer os.Remove(p)
		var db *wt.Whisper
		var err error
		resp.Where = "Open"
		if pm := guard(func() { db, err = wt.Open(p) }); pm != "" {
			resp.Panic = pm
			return
		}
		if err != nil {
			resp.Err = err.Error()
			// the failed Open must not leave the file open or locked: opening the same path again returns
			// (with the same error) instead of waiting for a lock nobody will release
			old := debug.SetGCPercent(-1) // a finalizer would close a leaked descriptor and hide the hang
			again := make(chan struct{})
			go func() {
				defer close(again)
				guard(func() {
					if d2, e2 := wt.Open(p); e2 == nil {
						d2.Close()
					}
				})
			}()
			select {
			case <-again:
			case <-time.After(10 * time.Second):
				resp.Panic = "HANG: a second Open of the same damaged file did not return within 10 s (the failed first Open left the file locked)"
				resp.Where = "second Open after a failed Open"
			}
			debug.SetGCPercent(old)
			return
		}
		defer db.Close()
		resp.Decoded = true
		now := req.Now
		n := len(db.ArchiveInfoList())
		if n > 64 {
			n = 64
		}
		try := func(where string, f func()) bool {
			resp.Where = where
			if pm := guard(f); pm != "" {
				resp.Panic = pm
				return false
			}
			return true
		}
		for a := -1; a < n; a++ {
			a := a
			if !try(fmt.Sprintf("FetchFromArchive(%d, 0, now)", a), func() { db.FetchFromArchive(a, 0, wt.Timestamp(now), wt.Timestamp(now)) }) {
				return
			}
			if !try(fmt.Sprintf("FetchFromArchive(%d, now-100, now)", a), func() { db.FetchFromArchive(a, wt.Timestamp(now-100), wt.Timestamp(now), wt.Timestamp(now)) }) {
				return
			}
			if !try(fmt.Sprintf("FetchFromArchive(%d, 0, 2^32-1, now)", a), func() { db.FetchFromArchive(a, 0, wt.Timestamp(4294967295), wt.Timestamp(now)) }) {
				return
			}
			if !try(fmt.Sprintf("FetchFromArchive(%d, now-1, 2^32-1, now)", a), func() { db.FetchFromArchive(a, wt.Timestamp(now-1), wt.Timestamp(4294967295), wt.Timestamp(now)) }) {
				return
			}
			if !try(fmt.Sprintf("FetchFromArchive(%d, 0, 0, now)", a), func() { db.FetchFromArchive(a, 0, 0, wt.Timestamp(now)) }) {
				return
			}
			if a >= 0 {
				if !try(fmt.Sprintf("GetAllRawUnsortedPoints(%d)", a), func() { db.GetAllRawUnsortedPoints(a) }) {
					return
				}
			}
		}
		for a := -1; a < n; a++ {
			a := a
			if !try(fmt.Sprintf("UpdatePointForArchive(%d)", a), func() { db.UpdatePointForArchive(a, wt.Timestamp(now-1), 1.5, wt.Timestamp(now)) }) {
				return
			}
			if !try(fmt.Sprintf("UpdatePointsForArchive(%d)", a), func() {
				db.UpdatePointsForArchive([]wt.Point{{Time: wt.Timestamp(now - 3), Value: 1}, {Time: wt.Timestamp(now - 2), Value: 2}, {Time: wt.Timestamp(now), Value: 3}}, a, wt.Timestamp(now))
			}) {
				return
			}
		}
		// single updates (best archive) with ages around the last archive's real retention and around the header's
		// max-retention FIELD (bytes 4..7), which a damaged header may have larger or smaller than the archives say
		if n > 0 {
			last := db.ArchiveInfoList()[n-1]
			realRet := int64(last.SecondsPerPoint()) * int64(last.NumberOfPoints())
			field := int64(db.MaxRetention())
			for _, age := range []int64{realRet - 1, realRet, realRet + 1, (realRet + field) / 2, field - 1, field, field + 1} {
				age := age
				if age < 0 || age >= now {
					continue
				}
				if !try(fmt.Sprintf("UpdatePointForArchive(best, age %d)", age), func() {
					db.UpdatePointForArchive(-1, wt.Timestamp(now-age), 3.5, wt.Timestamp(now))
				}) {
					return
				}
				if !try(fmt.Sprintf("UpdatePointsForArchive(best, age %d)", age), func() {
					db.UpdatePointsForArchive([]wt.Point{{Time: wt.Timestamp(now - age), Value: 4.5}, {Time: wt.Timestamp(now), Value: 1}}, -1, wt.Timestamp(now))
				}) {
					return
				}
			}
		}
		// a run of updates one step apart in every archive (every alignment of a point relative to the coarser
		// archives' slots), each propagating upward
		for a := 0; a < n && a < 6; a++ {
			a := a
			st := int64(db.ArchiveInfoList()[a].SecondsPerPoint())
			if st <= 0 || st > 1<<20 {
				continue
			}
			for k := int64(0); k < 12; k++ {
				k := k
				if !try(fmt.Sprintf("UpdatePointForArchive(%d, now-%d steps)", a, 11-k), func() {
					db.UpdatePointForArchive(a, wt.Timestamp(now-(11-k)*st), wt.Value(float64(k)), wt.Timestamp(now))
				}) {
					return
				}
			}
		}
		// reads and writes right around each archive's stored base interval (the first slot), at clocks
		// near it: a damaged base interval must not crash slot addressing
		if h, herr := ParseWspHeader(req.Data); herr == nil {
			for a, ar := range h.Archives {
				if a >= n || uint64(ar.Offset)+4 > uint64(len(req.Data)) || ar.Step == 0 || ar.Step > 1<<20 {
					continue
				}
				a := a
				b := int64(binary.BigEndian.Uint32(req.Data[ar.Offset:]))
				st := int64(ar.Step)
				if b < 4*st+10 || b > 4000000000 {
					continue
				}
				for _, nw := range []int64{b + st, b + 2*st + 1, b + 1} {
					nw := nw
					for _, w := range [][2]int64{{b - 2*st, b + 2*st}, {b - 1, b + 1}, {b - st, b}, {b, b + st - 1}, {b - st + 1, b + 1}} {
						w := w
						if !try(fmt.Sprintf("FetchFromArchive(%d, %d, %d, now=%d) around base %d", a, w[0], w[1], nw, b), func() {
							db.FetchFromArchive(a, wt.Timestamp(w[0]), wt.Timestamp(w[1]), wt.Timestamp(nw))
						}) {
							return
						}
					}
					if !try(fmt.Sprintf("UpdatePointForArchive(%d, t=%d, now=%d) around base %d", a, nw-1, nw, b), func() {
						db.UpdatePointForArchive(a, wt.Timestamp(nw-1), 2.5, wt.Timestamp(nw))
					}) {
						return
					}
					if !try(fmt.Sprintf("UpdatePointsForArchive(%d, now=%d) around base %d", a, nw, b), func() {
						db.UpdatePointsForArchive([]wt.Point{{Time: wt.Timestamp(nw - st), Value: 1}, {Time: wt.Timestamp(nw), Value: 3}}, a, wt.Timestamp(nw))
					}) {
						return
					}
				}
			}
		}
		try("Sync", func() { db.Sync() })
	case "http-diff-src", "http-copy-src", "http-sumdiff-dest", "http-sumdiff-src":
		// the hostile reply is ONE side of a two-sided command; the other side is a healthy local file of the
		// layout the reply's header announces (so that the command gets as far as comparing the two)
		url := hostileURL()
		hostilePayloadMu.Lock()
		hostilePayload = req.Data
		hostileClaim = 0
		hostileStatus = 0
		hostileListing = req.Listing
		hostileAlter, hostileSteps = "", nil
		hostilePayloadMu.Unlock()
		h, herr := ParseWspHeader(req.Data)
		if herr != nil || len(h.Archives) == 0 || len(h.Archives) > 8 {
			resp.Err = "no usable header in the payload"
			return
		}
		var l Layout
		l.Method, l.XFF = int(h.Agg), h.XFF
		for _, a := range h.Archives {
			l.Archives = append(l.Archives, Arch{Step: int64(a.Step), Points: int64(a.Points)})
		}
		if l.FileSize() > 1<<20 {
			resp.Err = "announced layout too large for the local side"
			return
		}
		local := filepath.Join(dir, fmt.Sprintf("local-%d", time.Now().UnixNano()))
		defer os.RemoveAll(local)
		mk := func(rel string) bool {
			p := filepath.Join(local, rel)
			os.MkdirAll(filepath.Dir(p), 0755)
			db, err := createWT(p, l)
			if err != nil {
				return false
			}
			db.Sync()
			db.Close()
			return true
		}
		if req.Alter != "" {
			// the peer's files: healthy, of the same layout, with a few recent values
			root, _, err := startServer()
			if err != nil {
				resp.Err = "no real server: " + err.Error()
				return
			}
			os.RemoveAll(filepath.Join(root, "a"))
			os.RemoveAll(filepath.Join(root, "item1"))
			defer os.RemoveAll(filepath.Join(root, "a"))
			defer os.RemoveAll(filepath.Join(root, "item1"))
			var steps []int64
			for _, a := range l.Archives {
				steps = append(steps, a.Step)
			}
			for _, rel := range []string{"a/b.wsp", "item1/f1.wsp", "item1/sum.wsp"} {
				p := filepath.Join(root, rel)
				os.MkdirAll(filepath.Dir(p), 0755)
				db, err := createWT(p, l)
				if err != nil {
					resp.Err = "layout not creatable"
					return
				}
				nowT := time.Now().Unix()
				for i, a := range l.Archives {
					guard(func() {
						db.UpdatePointForArchive(i, wt.Timestamp(nowT-a.Step), wt.Value(float64(i+1)), wt.Timestamp(nowT))
					})
				}
				db.Sync()
				db.Close()
			}
			hostilePayloadMu.Lock()
			hostileAlter, hostileSteps = req.Alter, steps
			hostilePayloadMu.Unlock()
		}
		// which archive the command asks for follows from the payload: all of them, or one (the reply carries
		// what it carries whatever was asked: a server need not honour the selection)
		sel := cmd.ArchiveIDAll
		if hs := fnv.New32a(); true {
			hs.Write(req.Data)
			if v := hs.Sum32(); v%3 != 0 {
				sel = int(v/3) % len(l.Archives)
			}
		}
		var c cmd.Command
		switch req.Target {
		case "http-diff-src":
			if !mk("a/b.wsp") {
				resp.Err = "layout not creatable"
				return
			}
			c = &cmd.DiffCommand{SrcBase: url, SrcRelPath: "a/b.wsp", DestBase: local, ArchiveID: sel, TextOut: ""}
			if req.Listing != "" {
				c.(*cmd.DiffCommand).SrcRelPath = "a/*.wsp" // glob mode: the file names come from the /files listing
			}
		case "http-copy-src":
			if !mk("a/b.wsp") {
				resp.Err = "layout not creatable"
				return
			}
			c = &cmd.CopyCommand{SrcBase: url, SrcRelPath: "a/b.wsp", DestBase: local, AggregationMethod: wt.AggregationMethod(l.Method), XFilesFactor: l.XFF, ArchiveInfoList: wtArchives(l), ArchiveID: sel, TextOut: ""}
			if req.Listing != "" {
				c.(*cmd.CopyCommand).SrcRelPath = "a/*.wsp"
			}
		case "http-sumdiff-dest":
			if !mk("item1/f1.wsp") {
				resp.Err = "layout not creatable"
				return
			}
			c = &cmd.SumDiffCommand{SrcBase: local, ItemPattern: "item1", SrcPattern: "*.wsp", DestBase: url, DestRelPath: "sum.wsp", ArchiveID: sel, TextOut: ""}
		default:
			if !mk("item1/sum.wsp") {
				resp.Err = "layout not creatable"
				return
			}
			c = &cmd.SumDiffCommand{SrcBase: url, ItemPattern: "item1", SrcPattern: "*.wsp", DestBase: local, DestRelPath: "sum.wsp", ArchiveID: sel, TextOut: ""}
		}
		var err error
		resp.Where = req.Target + " Execute"
		if pm := guard(func() { err = c.Execute() }); pm != "" {
			resp.Panic = pm
			return
		}
		if err != nil {
			resp.Err = err.Error()
		} else {
			resp.Decoded = true
		}
	case "http-view", "http-view-raw", "http-sum":
		url := hostileURL()
		hostilePayloadMu.Lock()
		hostilePayload = req.Data
		hostileClaim = req.Claim
		hostileStatus = req.Status
		hostileListing = req.Listing
		hostileAlter, hostileSteps = "", nil
		hostilePayloadMu.Unlock()
		var c cmd.Command
		switch req.Target {
		case "http-view":
			c = &cmd.ViewCommand{SrcBase: url, SrcRelPath: "a/b.wsp", ArchiveID: cmd.ArchiveIDAll, ShowHeader: true}
		case "http-view-raw":
			c = &cmd.ViewRawCommand{SrcBase: url, SrcRelPath: "a/b.wsp", ArchiveID: cmd.ArchiveIDAll, ShowHeader: true, SortsByTime: true}
		default:
			c = &cmd.SumCommand{SrcBase: url, ItemPattern: "item*", SrcPattern: "*.wsp", ArchiveID: cmd.ArchiveIDAll, ShowHeader: true}
		}
		var err error
		resp.Where = req.Target + " Execute"
		if pm := guard(func() { err = c.Execute() }); pm != "" {
			resp.Panic = pm
			return
		}
		if err != nil {
			resp.Err = err.Error()
		} else {
			resp.Decoded = true
		}
	default:
		resp.Err = "unknown target " + req.Target
	}
	return
}

// childMainC15 is the child's request loop.
func childMainC15() {
	lim := uint64(3) << 30
	syscall.Setrlimit(syscall.RLIMIT_AS, &syscall.Rlimit{Cur: lim, Max: lim})
	dir, _ := os.MkdirTemp(scratchBase(), "verif-c15-")
	defer os.RemoveAll(dir)
	in := bufio.NewReaderSize(os.Stdin, 1<<20)
	out := bufio.NewWriter(os.Stdout)
	dec := json.NewDecoder(in)
	for {
		var req hostileReq
		if err := dec.Decode(&req); err != nil {
			cleanupServerRoot()
			return
		}
		resp := execHostile(req, dir)
		b, _ := json.Marshal(resp)
		out.Write(b)
		out.WriteByte('\n')
		out.Flush()
	}
}

func scratchBase() string {
	if b := os.Getenv("VERIF_SCRATCH"); b != "" {
		return b
	}
	if st, err := os.Stat("/dev/shm"); err == nil && st.IsDir() {
		return "/dev/shm"
	}
	return os.TempDir()
}

// hostileChild is the parent's handle on the sandboxed process.
type hostileChild struct {
	cmd     *exec.Cmd
	stdin   io.WriteCloser
	out     *bufio.Reader
	stderr  *bytes.Buffer
	lines   chan []byte
	scratch string
}

func startHostileChild() (*hostileChild, error) {
	c := exec.Command(os.Args[0], "-test.run", "^TestChildNoop$")
	// the child's scratch files live in a directory of the parent's, removed with the child however it ends
	scratch := scratchDir()
	c.Env = append(os.Environ(), "VERIF_CHILD=c15", "GOMAXPROCS=2", "GOGC=50", "VERIF_SCRATCH="+scratch)
	stdin, err := c.StdinPipe()
	if err != nil {
		return nil, err
	}
	stdout, err := c.StdoutPipe()
	if err != nil {
		return nil, err
	}
	h := &hostileChild{cmd: c, stdin: stdin, stderr: &bytes.Buffer{}, lines: make(chan []byte, 1), scratch: scratch}
	c.Stderr = h.stderr
	if err := c.Start(); err != nil {
		os.RemoveAll(scratch)
		return nil, err
	}
	h.out = bufio.NewReaderSize(stdout, 1<<20)
	go func() {
		for {
			line, err := h.out.ReadBytes('\n')
			if err != nil {
				close(h.lines)
				return
			}
			h.lines <- line
		}
	}()
	return h, nil
}

func (h *hostileChild) kill() {
	if h == nil || h.cmd == nil {
		return
	}
	h.stdin.Close()
	h.cmd.Process.Kill()
	h.cmd.Wait()
	os.RemoveAll(h.scratch)
}

// call sends one request; died=true means the child process is gone (caller restarts it).
func (h *hostileChild) call(req hostileReq, timeout time.Duration) (resp hostileResp, died bool) {
	b, _ := json.Marshal(req)
	b = append(b, '\n')
	if _, err := h.stdin.Write(b); err != nil {
		h.cmd.Wait()
		return hostileResp{Died: "write to child failed: " + err.Error() + "\n" + tail(h.stderr.String(), 1500)}, true
	}
	select {
	case line, ok := <-h.lines:
		if !ok {
			h.cmd.Wait()
			return hostileResp{Died: tail(h.stderr.String(), 2500)}, true
		}
		if err := json.Unmarshal(line, &resp); err != nil {
			return hostileResp{Died: "bad response: " + err.Error()}, true
		}
		return resp, false
	case <-time.After(timeout):
		h.cmd.Process.Kill()
		h.cmd.Wait()
		return hostileResp{Timeout: true}, true
	}
}

func tail(s string, n int) string {
	if len(s) > n {
		// keep the head (the fatal error line) and the tail
		return s[:n/2] + "\n...\n" + s[len(s)-n/2:]
	}
	return s
}
