package props

// End-to-end cases of C16: the built cmd/whispertool binary (path in VERIF_CLI, built by the driver from /repo's
// working tree) is run as a user runs it, at the real clock, and its exit status is judged: 0 only when the
// command did its work, 1 for "difference found", 2 with a message on stderr for every failure. The scenarios
// are independent of the exact clock (values a few seconds old in archives that keep at least a minute).

import (
	"bytes"
	"fmt"
	"os"
	"os/exec"
	"path/filepath"
	"strconv"
	"strings"
	"time"
)

type C16E2E struct {
	L      Layout `json:"layout"`
	V      []F64  `json:"values"` // written at now-3, now-5, ... seconds
	Differ F64    `json:"differ"` // value of the slot that differs between src and the "differ" destination
}

func runCLI(cli string, dir string, args ...string) (int, string, string) {
	c := exec.Command(cli, args...)
	c.Dir = dir
	var so, se bytes.Buffer
	c.Stdout, c.Stderr = &so, &se
	done := make(chan error, 1)
	go func() { done <- c.Run() }()
	select {
	case err := <-done:
		if err == nil {
			return 0, so.String(), se.String()
		}
		if ee, ok := err.(*exec.ExitError); ok {
			return ee.ExitCode(), so.String(), se.String()
		}
		return -1, so.String(), err.Error()
	case <-time.After(60 * time.Second):
		c.Process.Kill()
		return -2, so.String(), "did not exit within 60 s"
	}
}

func runC16E2E(c C16E2E, ev *Evid) (fs []Finding) {
	cli := os.Getenv("VERIF_CLI")
	if cli == "" {
		ev.Discard("no-cli-binary")
		return nil
	}
	dir := scratchDir()
	defer os.RemoveAll(dir)
	now := time.Now().Unix()
	l := c.L
	step := l.Archives[0].Step
	var ws []SlotWrite
	for i, v := range c.V {
		ws = append(ws, SlotWrite{Arch: 0, T: now - int64(3+2*i)*step, V: v})
	}
	src := filepath.Join(dir, "src")
	mustBuild := func(path string, spec FileSpec) bool {
		if err := buildFile(path, spec, now); err != nil {
			fs = append(fs, Finding{Property: "C16", Key: "setup", Detail: err.Error()})
			return false
		}
		return true
	}
	other := subtleLayoutVariant(l)
	dw := append(append([]SlotWrite(nil), ws...), SlotWrite{Arch: 0, T: now - 4*step, V: c.Differ})
	if !mustBuild(filepath.Join(src, "item", "a.wsp"), FileSpec{L: l, Writes: ws}) ||
		!mustBuild(filepath.Join(src, "item", "b.wsp"), FileSpec{L: l, Writes: ws}) ||
		!mustBuild(filepath.Join(dir, "same", "item", "a.wsp"), FileSpec{L: l, Writes: ws}) ||
		!mustBuild(filepath.Join(dir, "differ", "item", "a.wsp"), FileSpec{L: l, Writes: dw}) ||
		!mustBuild(filepath.Join(dir, "otherlayout", "item", "a.wsp"), FileSpec{L: other}) {
		return
	}
	os.MkdirAll(filepath.Join(dir, "empty"), 0755)
	ret := func() string {
		var parts []string
		for _, a := range l.Archives {
			parts = append(parts, fmt.Sprintf("%ds:%ds", a.Step, a.Step*a.Points))
		}
		return strings.Join(parts, ",")
	}()
	lay := []string{"-agg-method", methodNames[l.Method], "-x-files-factor", strconv.FormatFloat(float64(l.XFF), 'g', -1, 32), "-retentions", ret}
	type scenario struct {
		name  string
		args  []string
		want  int                             // expected exit status
		extra func(out, errOut string) string // further judgement ("" = fine)
	}
	nonEmptyErr := func(_, e string) string {
		if strings.TrimSpace(e) == "" {
			return "nothing on stderr"
		}
		return ""
	}
	hasPoints := func(o, _ string) string {
		if !strings.Contains(o, "archive:") {
			return "no point records on stdout"
		}
		return ""
	}
	noFile := func(p string) func(string, string) string {
		return func(_, _ string) string {
			if fileExists(p) {
				return "the file was created all the same"
			}
			return ""
		}
	}
	before, _ := os.ReadFile(filepath.Join(dir, "otherlayout", "item", "a.wsp"))
	sc := []scenario{
		{"view of an existing file", []string{"view", "-src-base", src, "-src", "item/a.wsp"}, 0, hasPoints},
		{"view-raw of an existing file", []string{"view-raw", "-src-base", src, "-src", "item/a.wsp"}, 0, nil},
		{"view of a missing file", []string{"view", "-src-base", src, "-src", "item/none.wsp"}, 2, nonEmptyErr},
		{"view with an archive id out of range", []string{"view", "-src-base", src, "-src", "item/a.wsp", "-archive", "99"}, 2, nonEmptyErr},
		{"view with text-out below a missing directory", []string{"view", "-src-base", src, "-src", "item/a.wsp", "-text-out", filepath.Join(dir, "nodir", "x.txt")}, 2, nonEmptyErr},
		{"view without -src", []string{"view", "-src-base", src}, 2, nonEmptyErr},
		{"diff of equal files", []string{"diff", "-src-base", src, "-src", "item/a.wsp", "-dest-base", filepath.Join(dir, "same")}, 0, nil},
		{"diff with a missing destination", []string{"diff", "-src-base", src, "-src", "item/a.wsp", "-dest-base", filepath.Join(dir, "empty")}, 1, nil},
		{"diff of files differing in one slot", []string{"diff", "-src-base", src, "-src", "item/a.wsp", "-dest-base", filepath.Join(dir, "differ")}, 1, hasPoints},
		{"diff against a destination of another layout", []string{"diff", "-src-base", src, "-src", "item/a.wsp", "-dest-base", filepath.Join(dir, "otherlayout")}, 2, nonEmptyErr},
		{"copy onto a destination of another layout", append([]string{"copy", "-src-base", src, "-src", "item/a.wsp", "-dest-base", filepath.Join(dir, "otherlayout"), "-text-out", ""}, lay...), 2, func(_, e string) string {
			if b, _ := os.ReadFile(filepath.Join(dir, "otherlayout", "item", "a.wsp")); !bytes.Equal(b, before) {
				return "the destination was modified"
			}
			return nonEmptyErr("", e)
		}},
		{"copy into an absent destination", append([]string{"copy", "-src-base", src, "-src", "item/a.wsp", "-dest-base", filepath.Join(dir, "copied"), "-text-out", ""}, lay...), 0, func(_, _ string) string {
			if !fileExists(filepath.Join(dir, "copied", "item", "a.wsp")) {
				return "no destination file"
			}
			return ""
		}},
		{"diff after that copy", []string{"diff", "-src-base", src, "-src", "item/a.wsp", "-dest-base", filepath.Join(dir, "copied")}, 0, nil},
		{"sum of an item", []string{"sum", "-src-base", src, "-item", "item", "-src", "*.wsp"}, 0, hasPoints},
		{"sum of an item that matches nothing", []string{"sum", "-src-base", src, "-item", "nothing*", "-src", "*.wsp"}, 2, nonEmptyErr},
		{"sum-copy into an absent destination", append([]string{"sum-copy", "-src-base", src, "-item", "item", "-src", "*.wsp", "-dest-base", filepath.Join(dir, "sums"), "-dest", "sum.wsp", "-text-out", ""}, lay...), 0, nil},
		{"sum-diff after that sum-copy", []string{"sum-diff", "-src-base", src, "-item", "item", "-src", "*.wsp", "-dest-base", filepath.Join(dir, "sums"), "-dest", "sum.wsp"}, 0, nil},
		{"sum-diff against a missing destination", []string{"sum-diff", "-src-base", src, "-item", "item", "-src", "*.wsp", "-dest-base", filepath.Join(dir, "empty"), "-dest", "sum.wsp"}, 1, nil},
		{"generate a new file", append([]string{"generate", "-dest", filepath.Join(dir, "gen.wsp")}, lay...), 0, func(_, _ string) string {
			if !fileExists(filepath.Join(dir, "gen.wsp")) {
				return "no file"
			}
			return ""
		}},
		{"generate over an existing file", append([]string{"generate", "-dest", filepath.Join(dir, "gen.wsp")}, lay...), 2, nonEmptyErr},
		{"generate with xFilesFactor 2", append(append([]string{"generate", "-dest", filepath.Join(dir, "gen-x2.wsp")}, lay...), "-x-files-factor", "2"), 2, noFile(filepath.Join(dir, "gen-x2.wsp"))},
		{"generate with xFilesFactor NaN", append(append([]string{"generate", "-dest", filepath.Join(dir, "gen-xnan.wsp")}, lay...), "-x-files-factor", "NaN"), 2, noFile(filepath.Join(dir, "gen-xnan.wsp"))},
		{"generate with a second, unstorable aggregation method", append(append([]string{"generate", "-dest", filepath.Join(dir, "gen-mix.wsp")}, lay...), "-agg-method", "mix"), 2, noFile(filepath.Join(dir, "gen-mix.wsp"))},
		{"generate with a second, invalid retention list", append(append([]string{"generate", "-dest", filepath.Join(dir, "gen-ret.wsp")}, lay...), "-retentions", "10s:5s"), 2, noFile(filepath.Join(dir, "gen-ret.wsp"))},
		{"generate with a non-numeric maximum", append(append([]string{"generate", "-dest", filepath.Join(dir, "gen-max.wsp")}, lay...), "-max", "lots"), 2, noFile(filepath.Join(dir, "gen-max.wsp"))},
		{"view with a malformed -from", []string{"view", "-src-base", src, "-src", "item/a.wsp", "-from", "yesterday", "-until", "2030-01-01T00:00:00Z"}, 2, nil},
		{"view with an unknown option", []string{"view", "-src-base", src, "-src", "item/a.wsp", "-frobnicate"}, 2, nil},
		{"an unknown subcommand", []string{"frobnicate"}, 2, nil},
		{"no subcommand", nil, 2, nil},
	}
	for _, s := range sc {
		code, out, errOut := runCLI(cli, dir, s.args...)
		problem := ""
		if code != s.want {
			problem = fmt.Sprintf("exit status %d, expected %d", code, s.want)
		} else if s.extra != nil {
			problem = s.extra(out, errOut)
		}
		if problem != "" {
			fs = append(fs, Finding{Property: "C16", Key: "exit-status", Detail: fmt.Sprintf("whispertool %s [%s] (layout %s): %s; stderr: %q", strings.Join(s.args, " "), s.name, l, problem, tail(errOut, 300))})
			return
		}
	}
	ev.Count(HashJSON(c), true, "kind=e2e-binary", fmt.Sprintf("e2e-invocations=%d", len(sc)))
	if ev.WantSample() {
		ev.Sample(C16Case{E2E: &c})
	}
	return nil
}
