package props

import (
	"bufio"
	"fmt"
	"io"
	"net"
	"net/http"
	"net/url"
	"os"
	"path/filepath"
	"strings"
	"sync"
	"sync/atomic"
	"syscall"
	"testing"
	"time"

	wt "github.com/hnakamur/whispertool"
	"github.com/hnakamur/whispertool/cmd"
	"pgregory.net/rapid"
)

// C17 - concurrent reads are race-free and equal to sequential reads. Built with -race.
type ReadCall struct {
	Raw   bool  `json:"raw,omitempty"` // GetAllRawUnsortedPoints instead of FetchFromArchive
	ID    int   `json:"id"`
	From  int64 `json:"from,omitempty"`
	Until int64 `json:"until,omitempty"`
}

type C17Case struct {
	Kind  string     `json:"kind"` // handle | sum | http
	Now   int64      `json:"now"`
	Spec  *FileSpec  `json:"spec,omitempty"`
	Calls []ReadCall `json:"calls,omitempty"` // one goroutine each
	Files []TreeFile `json:"files,omitempty"`
	// sum / http
	ArchiveID int      `json:"archive_id"`
	From      int64    `json:"from"`
	Until     int64    `json:"until"`
	Requests  []string `json:"requests,omitempty"` // http: paths with query, relative to the served subtree marker %SUB%
	// Aborts: before the parallel batch, this many clients request a ~1 MB response, read 100 bytes and
	// hang up (the server's response write fails); the later requests must be unaffected
	Aborts int `json:"aborts,omitempty"`
	// Clones (sum): this many further files, copies of the generated ones, follow in glob order
	Clones int `json:"clones,omitempty"`
	// DupLink (sum): "hard" or "sym" - the first file is matched a second time under another name (zdup.wsp)
	DupLink string `json:"dup_link,omitempty"`
	// FailAll (sum): the archive id is out of range for every file, so every one of the (many) per-file reads
	// fails; the sum must come back with that error, as a read of any one file alone does
	FailAll bool `json:"fail_all,omitempty"`
	// HalfClose (http): the concurrent clients shut down the sending side of their connection once the request
	// is written and keep reading (as nc and HTTP/1.0-style tools do); the answer is the one an ordinary client gets
	HalfClose bool `json:"half_close,omitempty"`
	// Wide (http): this many further small files in a directory "wide" of the served subtree, listed by
	// several of the concurrent requests (listings that take a while)
	Wide int `json:"wide,omitempty"`
}

func noteLastCase(c interface{}) { noteCaseInFlight(c) }

type readResult struct {
	Fetch fetchResult
	Raw   []rawPoint
	Err   string
}

func doRead(db *wt.Whisper, rc ReadCall, now int64) readResult {
	if rc.Raw {
		r, err, pm := rawWT(db, rc.ID)
		res := readResult{Raw: r}
		if err != nil {
			res.Err = err.Error()
		}
		if pm != "" {
			res.Err = "PANIC " + pm
		}
		return res
	}
	f := fetchWT(db, rc.ID, rc.From, rc.Until, now)
	res := readResult{Fetch: f}
	if f.Err != nil {
		res.Err = f.Err.Error()
		res.Fetch.Err = nil
	}
	if f.Panic != "" {
		res.Err = "PANIC " + f.Panic
	}
	return res
}

func sameRead(a, b readResult) bool {
	if a.Err != b.Err || a.Fetch.Nil != b.Fetch.Nil || len(a.Raw) != len(b.Raw) || len(a.Fetch.S.Values) != len(b.Fetch.S.Values) ||
		a.Fetch.S.From != b.Fetch.S.From || a.Fetch.S.Until != b.Fetch.S.Until || a.Fetch.S.Step != b.Fetch.S.Step {
		return false
	}
	for i := range a.Raw {
		if a.Raw[i].T != b.Raw[i].T || !sameF(a.Raw[i].V, b.Raw[i].V) {
			return false
		}
	}
	for i := range a.Fetch.S.Values {
		if !sameF(a.Fetch.S.Values[i], b.Fetch.S.Values[i]) {
			return false
		}
	}
	return true
}

func runC17(c C17Case, ev *Evid) (fs []Finding) {
	noteLastCase(c)
	add := func(key, format string, args ...interface{}) {
		fs = append(fs, Finding{Property: "C17", Key: key, Detail: fmt.Sprintf(format, args...)})
	}
	dir := scratchDir()
	defer os.RemoveAll(dir)
	switch c.Kind {
	case "handle":
		path := filepath.Join(dir, "f.wsp")
		if err := buildFile(path, *c.Spec, c.Now); err != nil {
			add("setup", "%v", err)
			return
		}
		db, err := openWT(path)
		if err != nil {
			add("setup", "%v", err)
			return
		}
		results := make([]readResult, len(c.Calls))
		var wg sync.WaitGroup
		start := make(chan struct{})
		for i, rc := range c.Calls {
			i, rc := i, rc
			wg.Add(1)
			go func() {
				defer wg.Done()
				<-start
				results[i] = doRead(db, rc, c.Now)
			}()
		}
		close(start)
		wg.Wait()
		db.Close()
		// the same calls, one at a time, each on a fresh handle
		overlapSameArchive := 0
		seenArch := map[int]int{}
		for i, rc := range c.Calls {
			d2, err := openWT(path)
			if err != nil {
				add("setup", "%v", err)
				return
			}
			seq := doRead(d2, rc, c.Now)
			d2.Close()
			if !sameRead(results[i], seq) {
				add("concurrent-differs", "call %d %+v on a shared handle with %d concurrent calls returned a different result than the same call executed alone (err %q vs %q, %d vs %d values)", i, rc, len(c.Calls), results[i].Err, seq.Err, len(results[i].Fetch.S.Values)+len(results[i].Raw), len(seq.Fetch.S.Values)+len(seq.Raw))
				return
			}
			seenArch[rc.ID]++
		}
		for _, n := range seenArch {
			if n >= 2 {
				overlapSameArchive++
			}
		}
		ev.Count(HashJSON(c), overlapSameArchive > 0, "kind=handle", fmt.Sprintf("goroutines=%d", len(c.Calls)))
	case "sum":
		// real wall clock (no bubble): another goroutine holds the lock of the first file for a few
		// milliseconds so that the per-file reads complete out of glob order; the result must still be
		// what summing the files one at a time, in glob order, gives - header of the first file and
		// left-to-right floating-point sums (the values are chosen to be order sensitive)
		base := filepath.Join(dir, "tree")
		buildNow := time.Now().Unix()
		files := make([]TreeFile, len(c.Files))
		for i, f := range c.Files {
			// re-date the generated writes relative to the real clock
			g := f
			g.Spec.Writes = nil
			for _, w := range f.Spec.Writes {
				g.Spec.Writes = append(g.Spec.Writes, SlotWrite{Arch: w.Arch, T: w.T - c.Now + buildNow, V: w.V})
			}
			files[i] = g
		}
		for j := 0; j < c.Clones; j++ {
			// more files than any batch / descriptor limit of the reader: copies of the generated ones, later in glob order
			g := files[j%len(c.Files)]
			g.Name = fmt.Sprintf("g%03d.wsp", j)
			files = append(files, g)
		}
		if err := buildTree(base, files, buildNow); err != nil {
			add("setup", "%v", err)
			return
		}
		firstPath := filepath.Join(base, files[0].Dir, files[0].Name)
		if c.DupLink != "" {
			// one file under two names inside the item (both names are read, the file counts twice)
			dup := filepath.Join(base, files[0].Dir, "zdup.wsp")
			var lerr error
			if c.DupLink == "hard" {
				lerr = os.Link(firstPath, dup)
			} else {
				lerr = os.Symlink(files[0].Name, dup)
			}
			if lerr == nil {
				files = append(files, TreeFile{Dir: files[0].Dir, Name: "zdup.wsp", Spec: files[0].Spec})
			}
		}
		held := make(chan struct{})
		release := make(chan struct{})
		go func() {
			fd, err := syscall.Open(firstPath, syscall.O_RDONLY, 0)
			if err == nil {
				syscall.Flock(fd, syscall.LOCK_EX)
			}
			close(held)
			time.Sleep(time.Duration(5+c.ArchiveID+2) * time.Millisecond)
			if err == nil {
				syscall.Close(fd)
			}
			close(release)
		}()
		<-held
		out := filepath.Join(dir, "sum.txt")
		sc := &cmd.SumCommand{SrcBase: base, ItemPattern: "s1", SrcPattern: "*.wsp", ArchiveID: c.ArchiveID, TextOut: out, ShowHeader: true}
		if c.FailAll {
			sc.ArchiveID = len(files[0].Spec.L.Archives) + 1
		}
		var err error
		var pm string
		sumDone := make(chan struct{})
		go func() {
			defer close(sumDone)
			pm = guard(func() { err = sc.Execute() })
		}()
		select {
		case <-sumDone:
		case <-time.After(60 * time.Second):
			<-release
			add("sum-hang", "sum over %d files (dup-link=%q) did not return within 60 s; every file alone is read at once", len(files), c.DupLink)
			return
		}
		<-release
		if c.FailAll {
			if pm != "" || err == nil {
				add("concurrent-differs", "sum over %d files with an archive id none of them has: result %v %s; reading any one of them alone fails with 'archive ID out of range'", len(files), err, pm)
				return
			}
			ev.Count(HashJSON(c), true, "kind=sum", "every-read-fails", fmt.Sprintf("files>=%d", len(files)/10*10))
			return nil
		}
		if pm != "" || err != nil {
			add("sum-fails", "sum over %d files: %v %s", len(files), err, pm)
			return
		}
		recs := parseLTSV(readText(out))
		usedNow := int64(0)
		for _, r := range recs {
			if v, ok := r["now"]; ok {
				usedNow, _ = parseTime(v)
			}
		}
		if usedNow == 0 {
			add("sum-output", "no now: record in the output")
			return
		}
		// sequential reference: glob order, left to right
		l := files[0].Spec.L
		var want []*Series
		for a := range l.Archives {
			if c.ArchiveID != -1 && c.ArchiveID != a {
				want = append(want, nil)
				continue
			}
			var acc *Series
			for _, f := range files {
				rs, rerr := readArchives(filepath.Join(base, f.Dir, f.Name), l, 0, usedNow, usedNow)
				if rerr != nil || rs[a].Nil {
					continue
				}
				if acc == nil {
					acc = &Series{From: rs[a].S.From, Until: rs[a].S.Until, Step: rs[a].S.Step, Values: append([]float64(nil), rs[a].S.Values...)}
					continue
				}
				for k, v := range rs[a].S.Values {
					switch {
					case acc.Values[k] != acc.Values[k]:
						acc.Values[k] = v
					case v == v:
						acc.Values[k] += v
					}
				}
			}
			want = append(want, acc)
		}
		got, perr := parsePointRecords(recs)
		if perr != "" {
			add("sum-output", "%s", perr)
			return
		}
		if d := compareSeriesRecordsExact(got, want); d != "" {
			add("concurrent-differs", "sum over %d files whose reads completed out of order differs from the files summed one at a time in glob order: %s", len(files), d)
			return
		}
		first := files[0].Spec.L
		if d := checkHeaderBlock(recs, first); d != "" {
			add("concurrent-differs", "sum over %d files: the header is not the first file's (glob order): %s", len(files), d)
			return
		}
		ev.Count(HashJSON(c), len(files) >= 2, "kind=sum", fmt.Sprintf("files>=%d", len(files)/10*10))
	case "http":
		root, base, err := startServer()
		if err != nil {
			panic(err)
		}
		sub := fmt.Sprintf("r%d", atomic.AddInt64(&c12Counter, 1))
		defer os.RemoveAll(filepath.Join(root, sub))
		defer os.RemoveAll(filepath.Join(root, "linked-"+sub))
		if err := buildTree(filepath.Join(root, sub), c.Files, c.Now); err != nil {
			add("setup", "%v", err)
			return
		}
		if c.Wide > 0 {
			tiny := Layout{Archives: []Arch{{Step: 1, Points: 2}}, Method: 2}
			for i := 0; i < c.Wide; i++ {
				if err := buildFile(filepath.Join(root, sub, "wide", fmt.Sprintf("w%04d.wsp", i)), FileSpec{L: tiny}, c.Now); err != nil {
					add("setup", "%v", err)
					return
				}
			}
		}
		getHalfClosed := func(req string) (string, error) {
			conn, err := net.DialTimeout("tcp", strings.TrimPrefix(base, "http://"), 10*time.Second)
			if err != nil {
				return "", err
			}
			defer conn.Close()
			conn.SetDeadline(time.Now().Add(45 * time.Second))
			if _, err := fmt.Fprintf(conn, "GET %s HTTP/1.1\r\nHost: x\r\nConnection: close\r\n\r\n", req); err != nil {
				return "", err
			}
			if tc, ok := conn.(*net.TCPConn); ok {
				tc.CloseWrite()
			}
			resp, err := http.ReadResponse(bufio.NewReader(conn), nil)
			if err != nil {
				return "", fmt.Errorf("no answer on a connection whose sending side was shut down after the request: %v", err)
			}
			defer resp.Body.Close()
			b, err := io.ReadAll(resp.Body)
			return fmt.Sprintf("%d %s %s|", resp.StatusCode, resp.Header.Get("X-Op"), resp.Header.Get("Content-Type")) + string(b), err
		}
		if serverWedged != "" {
			add("http-error", "(not run) the server stopped answering earlier in this process: %s was not answered within 45 s", serverWedged)
			return
		}
		get := func(req string) (string, error) {
			resp, err := httpClient60.Get(base + req)
			if err != nil {
				return "", err
			}
			defer resp.Body.Close()
			b, err := io.ReadAll(resp.Body)
			return fmt.Sprintf("%d %s %s|", resp.StatusCode, resp.Header.Get("X-Op"), resp.Header.Get("Content-Type")) + string(b), err
		}
		// requests are stored unescaped ("path?k=v&k=v", values never contain & or =); the served subtree's
		// name is substituted first, then every value is query-escaped
		reqs := make([]string, len(c.Requests))
		for i, r := range c.Requests {
			r = replaceSub(r, sub)
			path, query, _ := strings.Cut(r, "?")
			var parts []string
			for _, kv := range strings.Split(query, "&") {
				k, v, _ := strings.Cut(kv, "=")
				parts = append(parts, k+"="+url.QueryEscape(v))
			}
			reqs[i] = path + "?" + strings.Join(parts, "&")
		}
		if c.Aborts > 0 {
			big := Layout{Archives: []Arch{{Step: 1, Points: 90000}}, Method: 2}
			bigRel := c.Files[0].Dir + "/big.wsp"
			if err := buildFile(filepath.Join(root, sub, bigRel), FileSpec{L: big}, c.Now); err != nil {
				add("setup", "%v", err)
				return
			}
			addr := strings.TrimPrefix(base, "http://")
			for i := 0; i < c.Aborts; i++ {
				conn, err := net.Dial("tcp", addr)
				if err != nil {
					continue
				}
				conn.SetDeadline(time.Now().Add(10 * time.Second)) // (a server that has stopped answering is found by the requests below)
				fmt.Fprintf(conn, "GET /view-raw?file=%s&retention=-1 HTTP/1.1\r\nHost: x\r\n\r\n", url.QueryEscape(sub+"/"+bigRel))
				buf := make([]byte, 100)
				io.ReadFull(conn, buf)
				conn.Close()
			}
			time.Sleep(2 * time.Millisecond)
		}
		rounds := 1
		if c.Aborts > 0 {
			rounds = 2
		}
		var conc []string
		for round := 0; round < rounds; round++ {
			conc = make([]string, len(reqs))
			errs := make([]error, len(reqs))
			var wg sync.WaitGroup
			start := make(chan struct{})
			for i := range reqs {
				i := i
				wg.Add(1)
				go func() {
					defer wg.Done()
					<-start
					if c.HalfClose {
						conc[i], errs[i] = getHalfClosed(reqs[i])
					} else {
						conc[i], errs[i] = get(reqs[i])
					}
				}()
			}
			close(start)
			wg.Wait()
			for i := range reqs {
				if errs[i] != nil {
					add("http-error", "GET %s (one of %d concurrent requests) failed or was not answered within 45 s: %v", reqs[i], len(reqs), errs[i])
					if ne, ok := errs[i].(interface{ Timeout() bool }); ok && ne.Timeout() {
						serverWedged = fmt.Sprintf("GET %s", reqs[i])
					}
					return
				}
				seq, err := get(reqs[i])
				if err != nil {
					add("http-error", "GET %s: %v", reqs[i], err)
					return
				}
				if seq != conc[i] {
					add("concurrent-differs", "GET %s answered differently with %d requests in flight than alone (%d vs %d bytes)", reqs[i], len(reqs), len(conc[i]), len(seq))
					return
				}
			}
		}
		bodies := 0
		for _, r := range conc {
			if strings.HasPrefix(r, "200 ") && len(r) > 60 {
				bodies++
			}
		}
		cls := []string{"kind=http", fmt.Sprintf("requests>=%d", len(reqs)/8*8)}
		if c.Aborts > 0 {
			cls = append(cls, "after-aborted-clients")
		}
		if c.HalfClose {
			cls = append(cls, "half-closing-clients")
		}
		if c.Wide > 0 {
			cls = append(cls, "wide-listings-in-flight")
		}
		if bodies > 0 {
			cls = append(cls, "http-data-responses")
		}
		ev.ClassN("http-responses-with-data", bodies)
		ev.Count(HashJSON(c), len(reqs) >= 2 && bodies >= 2, cls...)
	}
	if ev.WantSample() && len(c.Files) <= 2 && (c.Spec == nil || len(c.Spec.Writes) < 10) {
		ev.Sample(c)
	}
	return nil
}

// httpClient60: a request that is answered in milliseconds when issued alone must not hang for a minute
// (a server that stops answering is reported as a failed request, not waited for indefinitely).
var httpClient60 = &http.Client{Timeout: 45 * time.Second, Transport: &http.Transport{DisableKeepAlives: true}}

func replaceSub(s, sub string) string {
	out := ""
	for i := 0; i < len(s); {
		if i+5 <= len(s) && s[i:i+5] == "%SUB%" {
			out += sub
			i += 5
			continue
		}
		out += string(s[i])
		i++
	}
	return out
}

func genC17(t *rapid.T) C17Case {
	kind := rapid.SampledFrom([]string{"handle", "handle", "sum", "http", "http"}).Draw(t, "kind")
	switch kind {
	case "handle":
		o := defaultLayoutOpts()
		o.MaxArchives = 3
		l := genLayout(t, o)
		// force a multi-page archive
		l.Archives[0].Points += rapid.Int64Range(400, 2500).Draw(t, "bigExtra")
		for j := 0; j+1 < len(l.Archives); j++ {
			need := floorDiv(l.Archives[j].Ret(), l.Archives[j+1].Step) + 1
			if l.Archives[j+1].Points < need {
				l.Archives[j+1].Points = need
			}
		}
		now := genNowRealistic(t, l)
		spec := FileSpec{L: l, Writes: genWrites(t, l, now, valGeneral, 0)}
		// spread some writes over the big archive so that every page holds data
		for i := 0; i < 40; i++ {
			age := rapid.Int64Range(0, l.Archives[0].Ret()-1).Draw(t, "spreadAge")
			spec.Writes = append(spec.Writes, SlotWrite{Arch: 0, T: now - age, V: F64(float64(i))})
		}
		c := C17Case{Kind: kind, Now: now, Spec: &spec}
		k := rapid.IntRange(2, 16).Draw(t, "goroutines")
		for i := 0; i < k; i++ {
			w := genWindow(t, l, now, false)
			rc := ReadCall{ID: w.ID, From: w.From, Until: w.Until}
			if rapid.IntRange(0, 3).Draw(t, "fullOrRaw") == 0 {
				rc = ReadCall{ID: w.ID, From: 0, Until: now}
			} else if rapid.IntRange(0, 4).Draw(t, "raw") == 0 {
				rc = ReadCall{Raw: true, ID: w.ID}
			}
			c.Calls = append(c.Calls, rc)
		}
		return c
	case "sum":
		l := genCLILayout(t)
		now := genNowRealistic(t, l)
		c := C17Case{Kind: kind, Now: now, ArchiveID: -1}
		n := rapid.IntRange(2, 40).Draw(t, "files")
		for i := 0; i < n; i++ {
			fl := l
			if rapid.IntRange(0, 3).Draw(t, "otherMeta") == 0 {
				// same archives, other method / xFilesFactor: still summable; the header shown is the first file's
				fl.Method = rapid.IntRange(1, 6).Draw(t, "method")
				fl.XFF = rapid.SampledFrom([]float32{0, 0.5, 1, 0.25}).Draw(t, "xff")
			}
			c.Files = append(c.Files, TreeFile{Dir: "s1", Name: fmt.Sprintf("f%02d.wsp", i), Spec: FileSpec{L: fl, Writes: genWrites(t, fl, now, valGeneral, 10)}})
		}
		if rapid.IntRange(0, 3).Draw(t, "manyFiles") == 0 {
			c.Clones = rapid.IntRange(25, 200).Draw(t, "clones")
		}
		if rapid.IntRange(0, 5).Draw(t, "failAll") == 0 {
			c.FailAll = true
			if c.Clones < 20 {
				c.Clones = rapid.IntRange(20, 60).Draw(t, "failAllClones")
			}
		}
		if rapid.IntRange(0, 4).Draw(t, "dupLink") == 0 {
			c.DupLink = rapid.SampledFrom([]string{"hard", "sym"}).Draw(t, "dupKind")
		}
		if rapid.IntRange(0, 2).Draw(t, "oneArchive") == 0 {
			c.ArchiveID = rapid.IntRange(0, len(l.Archives)-1).Draw(t, "archive")
		}
		return c
	default:
		l := genCLILayout(t)
		now := genNowRealistic(t, l)
		c := C17Case{Kind: kind, Now: now, ArchiveID: -1}
		c.Files = genTree(t, l, now, false)
		p := rapid.IntRange(2, 24).Draw(t, "requests")
		if rapid.IntRange(0, 2).Draw(t, "aborts") == 0 {
			c.Aborts = rapid.IntRange(2, 3).Draw(t, "abortCount")
		}
		if rapid.IntRange(0, 5).Draw(t, "missingBurst") == 0 {
			// a burst of requests for files that do not exist (each answered "not exist"): failures must not
			// use up anything the later requests need
			f := c.Files[0]
			nb := rapid.IntRange(20, 60).Draw(t, "burst")
			for i := 0; i < nb; i++ {
				c.Requests = append(c.Requests, fmt.Sprintf("/view?file=%%SUB%%/%s/nope%d.wsp&retention=-1&from=%s&until=%s&now=%s", f.Dir, i, civilString(0), civilString(now), civilString(now)))
			}
		}
		if rapid.IntRange(0, 4).Draw(t, "bigBurst") == 0 {
			// 70-220 valid requests for ONE file in flight together: they queue on the file's lock, so far more
			// than a few dozen are inside the server at once; each must still get the sequential answer (round 10, C17t)
			f := c.Files[0]
			nb := rapid.IntRange(70, 220).Draw(t, "bigBurstCount")
			for i := 0; i < nb; i++ {
				c.Requests = append(c.Requests, fmt.Sprintf("/view?file=%%SUB%%/%s/%s&retention=-1&from=%s&until=%s&now=%s", f.Dir, f.Name, civilString(0), civilString(now), civilString(now)))
			}
		}
		if rapid.IntRange(0, 4).Draw(t, "invalidBurst") == 0 {
			// requests the server must refuse, each for its own reason (the answer names it), in flight together
			f := c.Files[0]
			file := "%SUB%/" + f.Dir + "/" + f.Name
			bad := []string{
				"/view?file=" + file + "&retention=x&from=" + civilString(0) + "&until=" + civilString(now) + "&now=" + civilString(now),
				"/view?file=" + file + "&retention=-1&from=yesterday&until=" + civilString(now) + "&now=" + civilString(now),
				"/view?file=" + file + "&retention=-1&from=" + civilString(0) + "&until=never&now=" + civilString(now),
				"/view?file=" + file + "&retention=-1&from=" + civilString(0) + "&until=" + civilString(now) + "&now=12345",
				"/view?retention=-1&from=" + civilString(0) + "&until=" + civilString(now) + "&now=" + civilString(now),
				"/view-raw?file=" + file + "&retention=1.5",
				"/sum?item=%SUB%." + replaceSlash(f.Dir) + "&pattern=*.wsp&retention=abc&from=" + civilString(0) + "&until=" + civilString(now) + "&now=" + civilString(now),
				"/sum?item=%SUB%." + replaceSlash(f.Dir) + "&pattern=*.wsp&retention=-1&from=" + civilString(0) + "&until=" + civilString(now) + "&now=",
				"/sum?pattern=*.wsp&retention=-1&from=" + civilString(0) + "&until=" + civilString(now) + "&now=" + civilString(now),
			}
			nb := rapid.IntRange(8, 40).Draw(t, "invalidCount")
			for i := 0; i < nb; i++ {
				c.Requests = append(c.Requests, bad[rapid.IntRange(0, len(bad)-1).Draw(t, "invalidKind")])
			}
		}
		if rapid.IntRange(0, 2).Draw(t, "sameSum") == 0 {
			// the same /sum request at several clock values, in flight together, on an item with many
			// files (a slow handler): each must get the answer for ITS clock
			f := c.Files[0]
			extra := rapid.IntRange(10, 30).Draw(t, "extraFiles")
			for i := 0; i < extra; i++ {
				c.Files = append(c.Files, TreeFile{Dir: f.Dir, Name: fmt.Sprintf("g%02d.wsp", i), Spec: f.Spec})
			}
			k := rapid.IntRange(3, 10).Draw(t, "sameSumRequests")
			arch := rapid.IntRange(-1, len(l.Archives)-1).Draw(t, "arch")
			stepBack := l.Archives[len(l.Archives)-1].Step + 1
			for j := 0; j < k; j++ {
				nj := now - int64(j%4)*stepBack
				c.Requests = append(c.Requests, "/sum?item=%SUB%."+replaceSlash(f.Dir)+"&pattern=*.wsp"+
					fmt.Sprintf("&retention=%d&from=%s&until=%s&now=%s", arch, civilString(0), civilString(now), civilString(nj)))
			}
			p = rapid.IntRange(0, 6).Draw(t, "otherRequests")
		}
		if rapid.IntRange(0, 2).Draw(t, "sameView") == 0 {
			// the same /view request (file, archive, from, until) at several clock values, in flight together (they
			// queue for the file's lock): each must get the answer for ITS clock
			f := c.Files[rapid.IntRange(0, len(c.Files)-1).Draw(t, "sameViewFile")]
			k := rapid.IntRange(3, 10).Draw(t, "sameViewRequests")
			arch := rapid.IntRange(-1, len(l.Archives)-1).Draw(t, "sameViewArch")
			stepBack := l.Archives[rapid.IntRange(0, len(l.Archives)-1).Draw(t, "sameViewStepOf")].Step + 1
			for j := 0; j < k; j++ {
				nj := now - int64(j%4)*stepBack
				c.Requests = append(c.Requests, fmt.Sprintf("/view?file=%%SUB%%/%s/%s&retention=%d&from=%s&until=%s&now=%s", f.Dir, f.Name, arch, civilString(0), civilString(now), civilString(nj)))
			}
		}
		if rapid.IntRange(0, 3).Draw(t, "halfClose") == 0 {
			c.HalfClose = true
		}
		if rapid.IntRange(0, 3).Draw(t, "wide") == 0 {
			c.Wide = rapid.IntRange(200, 900).Draw(t, "wideFiles")
			for j := rapid.IntRange(1, 4).Draw(t, "wideListings"); j > 0; j-- {
				c.Requests = append(c.Requests, "/files?pattern=%SUB%/wide/*.wsp")
			}
			if p < 6 {
				p = 6
			}
		}
		for i := 0; i < p; i++ {
			f := c.Files[rapid.IntRange(0, len(c.Files)-1).Draw(t, "file")]
			from, until := genCLIWindow(t, l, now)
			until = effUntil(until, now)
			arch := rapid.IntRange(-1, len(l.Archives)-1).Draw(t, "arch")
			q := func(k, v string) string { return k + "=" + v }
			ts := func(v int64) string { return civilString(v) }
			file := "%SUB%/" + f.Dir + "/" + f.Name
			if rapid.IntRange(0, 9).Draw(t, "missing") == 0 {
				file = "%SUB%/" + f.Dir + "/missing.wsp"
			}
			var req string
			switch rapid.IntRange(0, 4).Draw(t, "endpoint") {
			case 0:
				req = "/view?" + q("file", file) + fmt.Sprintf("&retention=%d&", arch) + q("from", ts(from)) + "&" + q("until", ts(until)) + "&" + q("now", ts(now))
			case 1:
				req = "/view-raw?" + q("file", file) + fmt.Sprintf("&retention=%d", arch)
			case 2:
				req = "/sum?" + q("item", "%SUB%."+replaceSlash(f.Dir)) + "&" + q("pattern", "*.wsp") + fmt.Sprintf("&retention=%d&", arch) + q("from", ts(from)) + "&" + q("until", ts(until)) + "&" + q("now", ts(now))
			case 3:
				req = "/items?" + q("pattern", "%SUB%/*")
			default:
				req = "/files?" + q("pattern", "%SUB%/"+f.Dir+"/*.wsp")
			}
			c.Requests = append(c.Requests, req)
		}
		return c
	}
}

func replaceSlash(s string) string {
	out := []byte(s)
	for i := range out {
		if out[i] == '/' {
			out[i] = '.'
		}
	}
	return string(out)
}

func TestC17(t *testing.T) {
	serverRelativeBase = true
	defer cleanupServerRoot()
	RunProperty(t, Property[C17Case]{
		ID:          "C17",
		Rule:        "built with the Go race detector (halt_on_error: a data race ends the process and is reported as the violation). Three generated case kinds: handle - one handle on a multi-page file, 2-16 goroutines released together, each issuing a generated FetchFromArchive (any archive / window) or raw dump; sum - the sum command over 2-40 files (its per-file reads run concurrently) at a controlled clock; http - 2-24 parallel raw GETs of /view, /view-raw, /sum, /items, /files (explicit now in the query, existing and missing files) against the in-process server. Oracle: zero race reports, and every concurrent result equals the same call executed alone afterwards (fresh handle / fresh request; sum vs. files summed one at a time; byte-equal status+headers+body for HTTP). The C17 server is started with a base directory relative to the working directory; a quarter of the http cases use clients that shut down their sending side after the request (answer compared with an ordinary client's), a quarter keep listings over 200-900 files in flight, a fifth send 70-220 valid requests for one file together (they queue on its lock inside the server). Non-trivial: >=2 calls on the same archive / >=2 files / >=2 requests in flight. Distinct = hash of the case.",
		Assumptions: []string{"OS scheduling is not controlled; the race detector reports unsynchronized conflicting accesses that actually executed", "the replay of a race is schedule dependent"},
		Gen:         genC17,
		Run:         runC17,
	})
}
