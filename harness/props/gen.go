package props

// Shared rapid generators (DESIGN.md §2.6). Sound first: only layouts, clocks and windows that
// callers of the library can legitimately produce; then as wide as the code allows.

import (
	"math"

	"pgregory.net/rapid"
)

var stepChoices = []int64{1, 1, 1, 2, 3, 5, 7, 10, 60}
var ratioChoices = []int64{2, 2, 3, 4, 5, 6, 10, 12, 60}

type layoutOpts struct {
	MinArchives int
	MaxArchives int
	// MaxPoints0 bounds the finest archive (keeps files small where size does not matter).
	MaxPoints0 int64
	// AllowMultiPage permits archives of 400-3000 points (12-byte slots straddle 4 KiB pages).
	AllowMultiPage bool
	MaxRatio       int64
	// HugePct: percentage of layouts whose finest archive gets 2800-6500 slots (runs longer than any
	// plausible bulk-read buffer)
	HugePct int
	// BigRatioPct: percentage of layouts (with >= 2 archives) whose first step ratio is one of 342..5500 (more
	// finer slots per coarse slot than fit a 4 KiB page / 16 KiB / 64 KiB read), as in 1s:1h,10m:1d
	BigRatioPct int
}

// thresholdSizes are slot counts at which page-, chunk- and batch-sized buffers of plausible implementations
// end: 4 KiB, 8 KiB, 16 KiB, 32 KiB, 64 KiB, 128 KiB of 12-byte slots, and powers of two.
var thresholdSizes = []int64{341, 342, 682, 683, 1024, 1365, 1366, 2048, 2730, 2731, 3072, 4096, 5461, 5462, 8192, 10922, 10923}

var bigRatios = []int64{342, 360, 600, 683, 1024, 1366, 1440, 3600, 5462}

func defaultLayoutOpts() layoutOpts {
	return layoutOpts{MinArchives: 1, MaxArchives: 4, MaxPoints0: 400, AllowMultiPage: true, MaxRatio: 60}
}

var xffChoices = []float32{0, 0, 1, 0.5, 0.25, 0.3, 0.75, 0.1, 0.9}

// genLayout builds a valid layout by construction.
func genLayout(t *rapid.T, o layoutOpts) Layout {
	k := rapid.IntRange(o.MinArchives, o.MaxArchives).Draw(t, "archives")
	steps := make([]int64, k)
	ratios := make([]int64, k) // ratios[i] = steps[i+1]/steps[i]
	steps[0] = rapid.SampledFrom(stepChoices).Draw(t, "step0")
	bigRatio := k >= 2 && o.BigRatioPct > 0 && rapid.IntRange(0, 99).Draw(t, "bigRatio") < o.BigRatioPct
	for i := 1; i < k; i++ {
		r := rapid.SampledFrom(ratioChoices).Draw(t, "ratio")
		if rapid.IntRange(0, 9).Draw(t, "oddRatio") == 0 {
			// any ratio, not only the customary ones (float32 rounding of k/n, k*(1/n) and the like differs by ratio)
			r = rapid.Int64Range(2, 128).Draw(t, "oddRatioValue")
		}
		if o.MaxRatio > 0 && r > o.MaxRatio {
			r = o.MaxRatio
		}
		if bigRatio && i == 1 {
			r = rapid.SampledFrom(bigRatios).Draw(t, "bigRatioValue")
		}
		if bigRatio && i >= 2 && r > 4 {
			r = 4 // keep every retention far below 2^30 (a big ratio followed by 60 x 60 would exceed it)
		}
		ratios[i-1] = r
		steps[i] = steps[i-1] * r
	}
	pts := make([]int64, k)
	for i := 0; i < k; i++ {
		min := int64(1)
		if i > 0 {
			// strictly longer retention than the finer archive
			min = floorDiv(pts[i-1]*steps[i-1], steps[i]) + 1
		}
		if i < k-1 && ratios[i] > min {
			min = ratios[i] // enough points to consolidate one coarser point
		}
		shape := rapid.IntRange(0, 9).Draw(t, "shape")
		var p int64
		switch {
		case shape <= 2: // tight: the minimum the rules allow (ring of 1-2, points == ratio, barely longer)
			p = min
		case shape == 3:
			p = min + 1
		case shape <= 6:
			p = min + rapid.Int64Range(0, 12).Draw(t, "extra")
		case shape <= 8:
			p = min + rapid.Int64Range(10, 120).Draw(t, "extra")
		default:
			if o.AllowMultiPage {
				p = min + rapid.Int64Range(340, 3000).Draw(t, "extra")
			} else {
				p = min + rapid.Int64Range(10, 120).Draw(t, "extra")
			}
		}
		if lim := (int64(1) << 30) / steps[i]; p > lim {
			// keep every retention below 2^30 so that the clock domain (zone Z7) is never empty
			p = lim
			if p < min {
				p = min
			}
		}
		pts[i] = p
	}
	if o.HugePct > 0 && rapid.IntRange(0, 99).Draw(t, "huge") < o.HugePct {
		if rapid.Bool().Draw(t, "hugeAtThreshold") {
			// exactly at / one beyond a plausible buffer size
			pts[0] = maxI64(pts[0], rapid.SampledFrom(thresholdSizes).Draw(t, "hugeThreshold")+rapid.Int64Range(0, 1).Draw(t, "hugeJitter"))
		} else {
			pts[0] += rapid.Int64Range(2800, 12000).Draw(t, "hugeExtra")
		}
		for i := 1; i < k; i++ {
			if need := floorDiv(pts[i-1]*steps[i-1], steps[i]) + 1; pts[i] < need {
				pts[i] = need
			}
		}
	}
	l := Layout{Method: rapid.IntRange(1, 6).Draw(t, "method")}
	for i := 0; i < k; i++ {
		if i >= o.MinArchives && i > 0 && steps[i]*pts[i] > 1<<30 {
			break // (valid by construction only while retentions fit; coarser archives beyond that are dropped)
		}
		l.Archives = append(l.Archives, Arch{Step: steps[i], Points: pts[i]})
	}
	switch rapid.IntRange(0, 5).Draw(t, "xffKind") {
	case 0, 1, 2:
		l.XFF = rapid.SampledFrom(xffChoices).Draw(t, "xff")
	case 3: // exact k/ratio of some level
		if k > 1 {
			lv := rapid.IntRange(0, k-2).Draw(t, "xffLevel")
			kk := rapid.Int64Range(0, ratios[lv]).Draw(t, "xffK")
			l.XFF = float32(float64(kk) / float64(ratios[lv]))
		}
	default:
		l.XFF = float32(rapid.Float64Range(0, 1).Draw(t, "xffRandom"))
	}
	return l
}

// genNow draws a clock value inside the domain every caller respects (zone Z7).
func genNow(t *rapid.T, l Layout) int64 {
	coarse := l.Archives[len(l.Archives)-1].Step
	lo := l.MaxRet() + coarse + 1
	hi := int64(math.MaxUint32) - 2*coarse - 1
	if lo < 100 {
		lo = 100
	}
	return snapNow(t, l, genNowRaw(t, l, lo, hi), lo, hi)
}

// snapNow moves a drawn clock value, in a third of the cases, onto (or one second beside) a multiple of some
// archive's step or retention: exact coincidences of the clock with the boundaries of a COARSE archive are rare
// in a uniform draw.
func snapNow(t *rapid.T, l Layout, now, lo, hi int64) int64 {
	k := rapid.IntRange(0, 5).Draw(t, "snapNow")
	if k > 1 {
		return now
	}
	a := l.Archives[rapid.IntRange(0, len(l.Archives)-1).Draw(t, "snapArch")]
	unit := a.Step
	if k == 1 {
		unit = a.Ret()
	}
	v := alignDown(now, unit) + rapid.SampledFrom([]int64{0, 0, -1, 1, a.Step - 1}).Draw(t, "snapDelta")
	if v < lo || v > hi {
		return now
	}
	return v
}

func genNowRaw(t *rapid.T, l Layout, lo, hi int64) int64 {
	coarse := l.Archives[len(l.Archives)-1].Step
	switch k := rapid.IntRange(0, 19).Draw(t, "nowKind"); {
	case k == 0:
		return rapid.Int64Range(lo, lo+3*coarse).Draw(t, "nowLow")
	case k <= 2:
		l2 := int64(1) << 31
		if l2 < lo {
			l2 = lo
		}
		return rapid.Int64Range(l2, hi).Draw(t, "nowHigh")
	default:
		a, b := int64(1500000000), int64(1900000000)
		if a < lo {
			a = lo
		}
		if b < a {
			b = hi
		}
		return rapid.Int64Range(a, b).Draw(t, "now")
	}
}

// genNowRealistic draws a clock in 2017-2030 (never beyond 2^31), for checks whose oracle is
// go-whisper or the CLI (int arithmetic of their own).
func genNowRealistic(t *rapid.T, l Layout) int64 {
	a := int64(1500000000)
	if m := l.MaxRet() + l.Archives[len(l.Archives)-1].Step + 1; a < m {
		a = m
	}
	return snapNow(t, l, rapid.Int64Range(a, a+400000000).Draw(t, "now"), a, a+400000000)
}

// genValue draws a finite value of either sign, weighted towards awkward ones.
func genValue(t *rapid.T) float64 {
	switch rapid.IntRange(0, 9).Draw(t, "valKind") {
	case 0:
		return float64(rapid.IntRange(-5, 5).Draw(t, "small"))
	case 1:
		return rapid.SampledFrom([]float64{0, math.Copysign(0, -1), 1, -1, 0.1, -0.1, 1e-310, -1e-310, math.MaxFloat64 / 4, -math.MaxFloat64 / 4, math.SmallestNonzeroFloat64, 0.30000000000000004, 123456789.12345679, math.Inf(1), math.Inf(-1), math.MaxFloat64, -math.MaxFloat64, 9007199254740993, -1e308}).Draw(t, "special")
	case 2:
		base := rapid.Float64Range(-1e6, 1e6).Draw(t, "base")
		return math.Nextafter(base, math.Inf(1))
	case 3, 4:
		return float64(rapid.Int64Range(-1<<20, 1<<20).Draw(t, "dyadic")) / 8
	default:
		return rapid.Float64Range(-1e9, 1e9).Draw(t, "val")
	}
}

// genDyadic draws an exactly summable value (multiple of 1/8, |v| < 2^20).
func genDyadic(t *rapid.T) float64 {
	return float64(rapid.Int64Range(-1<<23, 1<<23).Draw(t, "dyadic")) / 8
}

// Window is a fetch request.
type Window struct {
	ID    int   `json:"id"`
	From  int64 `json:"from"`
	Until int64 `json:"until"`
}

func clampTS(v int64) int64 {
	if v < 0 {
		return 0
	}
	if v > math.MaxUint32 {
		return math.MaxUint32
	}
	return v
}

// genInstant draws an instant relative to now and the retention edges of the layout.
func genInstant(t *rapid.T, l Layout, now int64, label string) int64 {
	a := l.Archives[rapid.IntRange(0, len(l.Archives)-1).Draw(t, label+"Arch")]
	ret := a.Ret()
	var v int64
	switch rapid.IntRange(0, 11).Draw(t, label+"Kind") {
	case 0:
		v = 0
	case 1:
		v = now + rapid.Int64Range(-2, 2).Draw(t, label+"d")
	case 2:
		v = now - ret + rapid.Int64Range(-2, 2).Draw(t, label+"d")
	case 3:
		v = now - ret - rapid.Int64Range(0, 3*a.Step).Draw(t, label+"d")
	case 4:
		v = now + rapid.Int64Range(1, 3*a.Step+5).Draw(t, label+"d")
	case 5:
		v = now - ret - rapid.Int64Range(a.Step, ret+5).Draw(t, label+"d")
	case 6: // aligned instants +-1
		v = alignDown(now-rapid.Int64Range(0, ret).Draw(t, label+"age"), a.Step) + rapid.Int64Range(-1, 1).Draw(t, label+"d")
	default:
		v = now - rapid.Int64Range(0, ret+a.Step).Draw(t, label+"age")
	}
	return clampTS(v)
}

// genWindow draws (id, from, until) incl. degenerate, sub-step, reversed and out-of-range ids.
func genWindow(t *rapid.T, l Layout, now int64, allowBad bool) Window {
	k := len(l.Archives)
	var id int
	if allowBad {
		switch r := rapid.IntRange(0, 19).Draw(t, "idKind"); {
		case r < 3:
			id = rapid.SampledFrom([]int{k, k + 1, -2, -3, k + 100}).Draw(t, "badID")
		case r < 9:
			id = -1
		default:
			id = rapid.IntRange(0, k-1).Draw(t, "id")
		}
	} else {
		id = rapid.IntRange(0, k-1).Draw(t, "id")
	}
	from := genInstant(t, l, now, "from")
	var until int64
	switch rapid.IntRange(0, 9).Draw(t, "untilKind") {
	case 0:
		until = from
	case 1:
		until = clampTS(from + rapid.Int64Range(0, 3).Draw(t, "sub"))
	case 2:
		until = now
	default:
		until = genInstant(t, l, now, "until")
	}
	if from > until && !(allowBad && rapid.IntRange(0, 9).Draw(t, "reversed") == 0) {
		from, until = until, from
	}
	return Window{ID: id, From: from, Until: until}
}

// genManyArchiveLayout: 5-30 archives (headers of 76-376 bytes, beyond any small fixed header buffer); steps
// double or triple, a few points each.
func genManyArchiveLayout(t *rapid.T) Layout {
	l := Layout{Method: rapid.IntRange(1, 6).Draw(t, "method"), XFF: rapid.SampledFrom(xffChoices).Draw(t, "xff")}
	n := rapid.IntRange(5, 30).Draw(t, "archiveCount")
	step, prevRet := int64(1), int64(0)
	for i := 0; i < n; i++ {
		pts := rapid.Int64Range(3, 5).Draw(t, "fewPoints")
		if step*pts <= prevRet {
			pts = prevRet/step + 1
		}
		if step*pts > 1<<30 {
			break
		}
		l.Archives = append(l.Archives, Arch{Step: step, Points: pts})
		prevRet = step * pts
		step *= int64(rapid.IntRange(2, 3).Draw(t, "stepRatio"))
	}
	return l
}
