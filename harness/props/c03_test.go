package props

import (
	"bytes"
	"fmt"
	"os"
	"testing"

	"pgregory.net/rapid"
)

// C03 - acceptance and routing.
type C03Case struct {
	H HistCase `json:"history"`
	// Perm is a permutation of the last batch of the history (metamorphic relation: any order
	// that keeps same-slot points in their relative order yields the same file).
	Perm []int `json:"perm,omitempty"`
}

func runHistoryToBytes(prop string, c HistCase, stopAfter int) ([]byte, *histRunner, []Finding) {
	h, err := newHistRunner(prop, c.L, c.Now)
	if err != nil {
		return nil, nil, []Finding{{Property: prop, Key: "create-error", Detail: fmt.Sprintf("Create(%s): %v", c.L, err)}}
	}
	defer h.close()
	for i, op := range c.Ops {
		if stopAfter >= 0 && i > stopAfter {
			break
		}
		h.step = i
		if f := h.apply(op); len(f) > 0 {
			return nil, h, f
		}
		if h.db == nil {
			return nil, h, nil
		}
		if op.Kind == "update" || op.Kind == "batch" {
			raw, f := h.rawState()
			if len(f) > 0 {
				return nil, h, f
			}
			if f := h.compareRawToModel(raw, h.m, -1); len(f) > 0 {
				return nil, h, f
			}
		}
	}
	if err := h.db.Sync(); err != nil {
		return nil, h, []Finding{h.finding("sync-error", "%v", err)}
	}
	b, err := os.ReadFile(h.path)
	if err != nil {
		return nil, h, []Finding{h.finding("read-error", "%v", err)}
	}
	return b, h, nil
}

func runC03(c C03Case, ev *Evid) (fs []Finding) {
	lastBatch := -1
	for i, op := range c.H.Ops {
		if op.Kind == "batch" && len(op.Points) > 1 {
			lastBatch = i
		}
	}
	b1, h, f := runHistoryToBytes("C03", c.H, lastBatch)
	if h != nil && h.m.Stats.Z1 {
		ev.Class("float32-xff-boundary-met")
	}
	if len(f) > 0 {
		return f
	}
	permuted := false
	if lastBatch >= 0 && len(c.Perm) == len(c.H.Ops[lastBatch].Points) && b1 != nil {
		c2 := c.H
		c2.Ops = append([]Op(nil), c.H.Ops...)
		op := c2.Ops[lastBatch]
		pts := make([]MPoint, len(op.Points))
		nowAt := c.H.Now
		for i := 0; i < lastBatch; i++ {
			nowAt += c.H.Ops[i].Advance
		}
		for i, j := range c.Perm {
			pts[i] = op.Points[j]
		}
		op.Points = normalizeBatchKeepingTies(c.H.L, nowAt, op.ID, op.Points, pts)
		c2.Ops[lastBatch] = op
		b2, _, f2 := runHistoryToBytes("C03", c2, lastBatch)
		if len(f2) > 0 {
			for i := range f2 {
				f2[i].Detail = "(permuted batch) " + f2[i].Detail
			}
			return f2
		}
		if b2 != nil && !bytes.Equal(b1, b2) {
			return []Finding{{Property: "C03", Key: "order-dependence", Detail: fmt.Sprintf("step %d: the same batch in another order (same-slot points kept in relative order) produced different file bytes", lastBatch)}}
		}
		permuted = true
	}
	nontrivial := h.facts["mixed-batch"] > 0 || h.facts["boundary-age"] > 0 || h.facts["same-slot-dup"] > 0 || h.facts["rejected-update"] > 0
	var cls []string
	for _, k := range []string{"mixed-batch", "one-stale-plus-fresh", "boundary-age", "same-slot-dup", "rejected-update", "future-point"} {
		if h.facts[k] > 0 {
			cls = append(cls, k)
		}
	}
	if permuted {
		cls = append(cls, "permutation-checked")
	}
	ev.Count(HashJSON(c), nontrivial, cls...)
	if nontrivial && ev.WantSample() {
		ev.Sample(c)
	}
	return nil
}

// normalizeBatchKeepingTies: in the permuted batch, points that share a slot must keep the
// relative order they had in the original batch (the statement's proviso).
func normalizeBatchKeepingTies(l Layout, now int64, id int, orig, perm []MPoint) []MPoint {
	m := NewModel(l)
	route := m.RouteBatch(perm, id, now)
	type key struct {
		a  int
		iv int64
	}
	// original order of the members of each slot group
	origRoute := m.RouteBatch(orig, id, now)
	order := map[key][]MPoint{}
	for i, p := range orig {
		if origRoute[i] < 0 {
			continue
		}
		k := key{origRoute[i], alignDown(p.T, l.Archives[origRoute[i]].Step)}
		order[k] = append(order[k], p)
	}
	out := append([]MPoint(nil), perm...)
	next := map[key]int{}
	for i, p := range perm {
		if route[i] < 0 {
			continue
		}
		k := key{route[i], alignDown(p.T, l.Archives[route[i]].Step)}
		out[i] = order[k][next[k]]
		next[k]++
	}
	return out
}

func TestC03(t *testing.T) {
	RunProperty(t, Property[C03Case]{
		ID:          "C03",
		Rule:        "rapid-generated histories of single updates (ages across every retention boundary, incl. rejected ones: future, age >= max retention) and batches (mixtures of in-range, too-old, boundary and 5% future ages, duplicates, random order, best or named archive) on fresh and pre-populated files; unique-ish values make provenance readable; after every write the physical content of every archive must equal the model's routing+propagation, accept/reject verdicts must match, and the last batch re-run in a permuted order must give byte-identical files. Non-trivial: a batch mixing droppable and storable points, an age within +-1 of a retention boundary, a same-slot duplicate, or a rejected update. Distinct = hash of the case.",
		Assumptions: []string{"zone Z7 clocks", "Z2: same-slot points with distinct timestamps are supplied in time order", "archive ids in range (Z8)"},
		Gen: func(t *rapid.T) C03Case {
			o := defaultLayoutOpts()
			o.AllowMultiPage = false
			l := genLayout(t, o)
			h := genHistory(t, l, histGenOpts{MaxOps: 8, AllowRejected: true, FuturePct: 5, UniqueValues: true, BigBatches: true})
			c := C03Case{H: h}
			last := -1
			for i, op := range h.Ops {
				if op.Kind == "batch" && len(op.Points) > 1 {
					last = i
				}
			}
			if last >= 0 {
				idx := make([]int, len(h.Ops[last].Points))
				for i := range idx {
					idx[i] = i
				}
				c.Perm = rapid.Permutation(idx).Draw(t, "perm")
			}
			return c
		},
		Run: runC03,
	})
}
