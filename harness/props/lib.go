package props

// Bridges between plain-data cases and the whispertool API. Every entry into the code under
// test goes through guard() so that a panic becomes an observation.

import (
	"fmt"
	"math"
	"os"
	"sync"
	"sync/atomic"
	"time"

	wt "github.com/hnakamur/whispertool"
)

// wtArchives returns the archive list of a layout. Like a schema that is parsed once and used for many
// metrics, ONE list value per distinct archive list is handed out for the whole process: a library that
// keeps per-file state in the caller's list shows up as soon as two files share it.
var (
	wtArchivesMu    sync.Mutex
	wtArchivesCache = map[string]wt.ArchiveInfoList{}
)

var prefixListCount int64

func wtArchives(l Layout) wt.ArchiveInfoList {
	key := ""
	for _, a := range l.Archives {
		key += fmt.Sprintf("%d:%d,", a.Step, a.Points)
	}
	if caseSaltFn != nil && caseSalt()%6 == 4 {
		// the list is the front part of a longer list that was already used for a header of its own (a program
		// that keeps one list of retentions and creates files with the first k of them): it means the same archives
		longer := make(wt.ArchiveInfoList, 0, len(l.Archives)+1)
		for _, a := range l.Archives {
			longer = append(longer, wt.NewArchiveInfo(wt.Duration(a.Step), uint32(a.Points)))
		}
		last := l.Archives[len(l.Archives)-1]
		if last.Step*2 <= math.MaxInt32 {
			longer = append(longer, wt.NewArchiveInfo(wt.Duration(last.Step*2), uint32(last.Points)))
			guard(func() { wt.NewHeader(wt.Average, 0.5, longer) })
			atomic.AddInt64(&prefixListCount, 1)
			return longer[:len(l.Archives)]
		}
	}
	wtArchivesMu.Lock()
	defer wtArchivesMu.Unlock()
	if al, ok := wtArchivesCache[key]; ok {
		return al
	}
	var out wt.ArchiveInfoList
	for _, a := range l.Archives {
		out = append(out, wt.NewArchiveInfo(wt.Duration(a.Step), uint32(a.Points)))
	}
	if len(wtArchivesCache) > 5000 {
		wtArchivesCache = map[string]wt.ArchiveInfoList{}
	}
	wtArchivesCache[key] = out
	return out
}

func createWT(path string, l Layout, opts ...wt.Option) (db *wt.Whisper, err error) {
	if pm := guard(func() {
		db, err = wt.Create(path, wtArchives(l), wt.AggregationMethod(l.Method), l.XFF, opts...)
	}); pm != "" {
		return nil, fmt.Errorf("PANIC in Create: %s", pm)
	}
	return db, err
}

func openWT(path string, opts ...wt.Option) (db *wt.Whisper, err error) {
	if pm := guard(func() { db, err = wt.Open(path, opts...) }); pm != "" {
		return nil, fmt.Errorf("PANIC in Open: %s", pm)
	}
	return db, err
}

// Series is a plain copy of a fetched TimeSeries.
type Series struct {
	From, Until, Step int64
	Values            []float64
	PointTimes        []int64
}

type fetchResult struct {
	Panic string
	Err   error
	Nil   bool
	S     Series
}

// viaShortAPI: for a third of the cases (chosen by the case's salt) calls that name no archive go through the
// short entry points Fetch / Update / UpdateMany, which read the clock themselves: whispertool.Now is then
// fixed at the call's clock, so that both routes must behave alike.
func viaShortAPI(id int, now int64) (restore func(), ok bool) {
	if id != -1 || now <= 0 || caseSalt()%3 != 1 {
		return nil, false
	}
	saved := wt.Now
	// the clock ticks one second per reading (a call that takes ONE reading, as it must, sees exactly `now`)
	shortAPIReadings = shortAPIReadings[:0]
	wt.Now = func() time.Time {
		v := now + int64(len(shortAPIReadings))
		shortAPIReadings = append(shortAPIReadings, v)
		return time.Unix(v, 0)
	}
	return func() { wt.Now = saved }, true
}

// viaShortAPIWould tells whether a call with these arguments goes through the short API (no side effect).
func viaShortAPIWould(id int, now int64) (struct{}, bool) {
	return struct{}{}, id == -1 && now > 0 && caseSalt()%3 == 1
}

// shortAPIReadings are the clock values handed out during the latest call made through the short API.
var shortAPIReadings []int64

func fetchWT(db *wt.Whisper, id int, from, until, now int64) (r fetchResult) {
	r.Panic = guard(func() {
		var ts *wt.TimeSeries
		var err error
		if restore, ok := viaShortAPI(id, now); ok {
			ts, err = db.Fetch(wt.Timestamp(from), wt.Timestamp(until))
			restore()
		} else {
			ts, err = db.FetchFromArchive(id, wt.Timestamp(from), wt.Timestamp(until), wt.Timestamp(now))
		}
		if err != nil {
			r.Err = err
			return
		}
		if ts == nil {
			r.Nil = true
			return
		}
		r.S = Series{From: int64(ts.FromTime()), Until: int64(ts.UntilTime()), Step: int64(ts.Step())}
		for _, v := range ts.Values() {
			r.S.Values = append(r.S.Values, float64(v))
		}
		for _, p := range ts.Points() {
			r.S.PointTimes = append(r.S.PointTimes, int64(p.Time))
		}
	})
	return
}

func updateWT(db *wt.Whisper, id int, t int64, v float64, now int64) (err error, pm string) {
	pm = guard(func() {
		if restore, ok := viaShortAPI(id, now); ok {
			defer restore()
			err = db.Update(wt.Timestamp(t), wt.Value(v))
			return
		}
		err = db.UpdatePointForArchive(id, wt.Timestamp(t), wt.Value(v), wt.Timestamp(now))
	})
	return
}

func batchWT(db *wt.Whisper, pts []MPoint, id int, now int64) (err error, pm string) {
	ps := make([]wt.Point, len(pts))
	for i, p := range pts {
		ps[i] = wt.Point{Time: wt.Timestamp(p.T), Value: wt.Value(p.V)}
	}
	pm = guard(func() {
		if restore, ok := viaShortAPI(id, now); ok {
			defer restore()
			err = db.UpdateMany(ps)
			return
		}
		err = db.UpdatePointsForArchive(ps, id, wt.Timestamp(now))
	})
	return
}

type rawPoint struct {
	T int64
	V float64
}

func rawWT(db *wt.Whisper, id int) (out []rawPoint, err error, pm string) {
	pm = guard(func() {
		var pts wt.Points
		pts, err = db.GetAllRawUnsortedPoints(id)
		for _, p := range pts {
			out = append(out, rawPoint{int64(p.Time), float64(p.Value)})
		}
	})
	return
}

func fstr(v float64) string {
	if math.IsNaN(v) {
		return "NaN"
	}
	return fmt.Sprintf("%v(%016x)", v, math.Float64bits(v))
}

func fileExists(p string) bool {
	_, err := os.Stat(p)
	return err == nil
}

// compareSeriesToModel checks a fetch result against the model's prediction; key prefix names
// the caller's context.
func compareFetch(prop, ctx string, r fetchResult, sh FetchShape, vals []float64) []Finding {
	var fs []Finding
	add := func(key, format string, args ...interface{}) {
		fs = append(fs, Finding{Property: prop, Key: key, Detail: ctx + ": " + fmt.Sprintf(format, args...)})
	}
	if r.Panic != "" {
		add("fetch-panic", "panic: %s", r.Panic)
		return fs
	}
	if sh.Err {
		if r.Err == nil {
			add("fetch-should-fail", "fetch succeeded, contract says error")
		}
		return fs
	}
	if r.Err != nil {
		add("fetch-error", "unexpected error %v", r.Err)
		return fs
	}
	if sh.Nil != r.Nil {
		add("fetch-nil", "nil series=%v, contract says %v", r.Nil, sh.Nil)
		return fs
	}
	if sh.Nil {
		return fs
	}
	if r.S.From != sh.From || r.S.Until != sh.Until || r.S.Step != sh.Step || int64(len(r.S.Values)) != sh.Count {
		add("fetch-shape", "got from=%d until=%d step=%d n=%d, contract from=%d until=%d step=%d n=%d",
			r.S.From, r.S.Until, r.S.Step, len(r.S.Values), sh.From, sh.Until, sh.Step, sh.Count)
		return fs
	}
	for i, pt := range r.S.PointTimes {
		if pt != sh.From+int64(i)*sh.Step {
			add("fetch-point-time", "Points()[%d].Time=%d want %d", i, pt, sh.From+int64(i)*sh.Step)
			return fs
		}
	}
	if vals != nil {
		for i, v := range r.S.Values {
			if !sameF(v, vals[i]) {
				add("fetch-value", "archive %d slot t=%d: got %s want %s", sh.Archive, sh.From+int64(i)*sh.Step, fstr(v), fstr(vals[i]))
				if len(fs) > 3 {
					return fs
				}
			}
		}
	}
	return fs
}
