package props

import (
	"encoding/binary"
	"fmt"
	"math"
	"os"
	"path/filepath"
	"testing"
	"time"

	gw "github.com/go-graphite/go-whisper"
	wt "github.com/hnakamur/whispertool"
	"github.com/hnakamur/whispertool/cmd"
	"pgregory.net/rapid"
)

// C06 - on-disk format is classic Whisper and interoperates with the reference reader.
type C06Case struct {
	Writer  string   `json:"writer"` // whispertool | go-whisper
	H       HistCase `json:"history"`
	Windows []Window `json:"windows"` // read by both readers at the final clock (id ignored: best archive)
}

func gwRetentions(l Layout) gw.Retentions {
	var rs gw.Retentions
	for _, a := range l.Archives {
		r := gw.NewRetention(int(a.Step), int(a.Points))
		rs = append(rs, &r)
	}
	return rs
}

// nonDegenerate says whether the window's aligned bounds differ before any extension.
func nonDegenerate(l Layout, from, until, now int64) bool {
	if from > until {
		return false
	}
	a := l.Archives[l.BestForFetch(from, now)]
	oldest := now - a.Ret()
	if from > now || until < oldest {
		return true // both readers return "no series"
	}
	if from < oldest {
		from = oldest
	}
	if until > now {
		until = now
	}
	return alignDown(from, a.Step) != alignDown(until, a.Step)
}

func runC06(c C06Case, ev *Evid) (fs []Finding) {
	add := func(key, format string, args ...interface{}) {
		fs = append(fs, Finding{Property: "C06", Key: key, Detail: fmt.Sprintf(format, args...)})
	}
	dir := scratchDir()
	defer os.RemoveAll(dir)
	path := filepath.Join(dir, "f.wsp")
	now := c.H.Now
	var model *Model
	wrapWritten := 0
	switch c.Writer {
	case "whispertool":
		h := &histRunner{prop: "C06", l: c.H.L, now: now, m: NewModel(c.H.L), facts: map[string]int{}, dir: dir, path: path}
		var copts []wt.Option
		if c.H.Now%7 == 0 {
			// re-created in place over a longer, unrelated file (a caller without O_EXCL): still an exact-length file
			os.WriteFile(path, make([]byte, int(c.H.L.FileSize())+5000), 0644) // zero-filled: only the length is unrelated
			copts = append(copts, wt.WithOpenFileFlag(os.O_RDWR|os.O_CREATE))
		}
		db, err := createWT(path, c.H.L, copts...)
		if err != nil {
			add("create-error", "Create(%s): %v", c.H.L, err)
			return
		}
		h.db = db
		h.synced = NewModel(c.H.L)
		for i, op := range c.H.Ops {
			h.step = i
			if f := h.apply(op); len(f) > 0 {
				db.Close()
				return f
			}
		}
		if h.m.Stats.Z1 {
			ev.Class("float32-xff-boundary-met")
		}
		if err := h.db.Sync(); err != nil {
			add("sync-error", "%v", err)
			return
		}
		h.db.Close()
		h.db = nil
		now = h.now
		model = h.m
	case "cli-copy":
		// the file under test is the destination the copy command creates (possibly with nothing to copy)
		src := filepath.Join(dir, "src", "f.wsp")
		h := &histRunner{prop: "C06", l: c.H.L, now: now, m: NewModel(c.H.L), facts: map[string]int{}, dir: dir, path: src}
		os.MkdirAll(filepath.Dir(src), 0755)
		db, err := createWT(src, c.H.L)
		if err != nil {
			add("create-error", "Create(%s): %v", c.H.L, err)
			return
		}
		h.db = db
		h.synced = NewModel(c.H.L)
		for i, op := range c.H.Ops {
			h.step = i
			if f := h.apply(op); len(f) > 0 {
				db.Close()
				return f
			}
		}
		h.db.Sync()
		h.db.Close()
		now = h.now
		w0 := Window{}
		if len(c.Windows) > 0 {
			w0 = c.Windows[0]
		}
		cc := &cmd.CopyCommand{SrcBase: filepath.Join(dir, "src"), SrcRelPath: "f.wsp", DestBase: filepath.Join(dir, "dest"), AggregationMethod: wt.AggregationMethod(c.H.L.Method), XFilesFactor: c.H.L.XFF,
			ArchiveInfoList: wtArchives(c.H.L), From: wt.Timestamp(w0.From), Until: wt.Timestamp(w0.Until), ArchiveID: cmd.ArchiveIDAll, TextOut: ""}
		if w0.From > w0.Until {
			cc.From, cc.Until = 0, 0
		}
		if err, pm := runCommand(now, cc); err != nil || pm != "" {
			add("copy-fails", "copy into a missing destination failed: %v %s", err, pm)
			return
		}
		path = filepath.Join(dir, "dest", "f.wsp")
	case "whispertool-huge":
		// a layout whose file ends near (or beyond) 4 GiB, where 32-bit offset arithmetic wraps. Whether such a
		// list is accepted is C07's subject; IF Create accepts it, the file must be the classic format: exact
		// length and every written slot at archive offset + 12 x ((interval - base)/step mod points), with all
		// offsets taken in exact (64-bit) arithmetic by the harness
		db, err := createWT(path, c.H.L)
		if err != nil {
			ev.Count(HashJSON(c), false, "writer=whispertool-huge", "huge-list-refused")
			return nil
		}
		type wr struct {
			a    int
			t    int64
			v    float64
			slot int64
		}
		var wrs []wr
		for a, ar := range c.H.L.Archives {
			// the first write fixes the archive's base interval; then the slot farthest from it, then one in between
			for k, age := range []int64{0, ar.Ret() - ar.Step, ar.Ret() / 2} {
				tt := now - age
				v := float64(1000*(a+1) + k)
				if err, pm := updateWT(db, a, tt, v, now); err != nil || pm != "" {
					db.Close()
					add("huge-update", "update of archive %d at now-%d on a created %d-byte file (%s): %v %s", a, age, c.H.L.FileSize(), c.H.L, err, pm)
					return
				}
				wrs = append(wrs, wr{a: a, t: tt, v: v})
			}
		}
		serr := db.Sync()
		db.Close()
		if serr != nil {
			add("huge-sync", "Sync on a created %d-byte file (%s): %v", c.H.L.FileSize(), c.H.L, serr)
			return
		}
		st, e := os.Stat(path)
		if e != nil || st.Size() != c.H.L.FileSize() {
			add("file-length", "created file (%s) has %d bytes, header + 12 x points = %d", c.H.L, st.Size(), c.H.L.FileSize())
			return
		}
		f, e := os.Open(path)
		if e != nil {
			panic(e)
		}
		defer f.Close()
		archOff := int64(16 + 12*len(c.H.L.Archives))
		offs := make([]int64, len(c.H.L.Archives))
		for a, ar := range c.H.L.Archives {
			offs[a] = archOff
			archOff += 12 * ar.Points
		}
		slotAt := func(off int64) (uint32, float64) {
			var b [12]byte
			if _, e := f.ReadAt(b[:], off); e != nil {
				return 0, 0
			}
			return binary.BigEndian.Uint32(b[:4]), math.Float64frombits(binary.BigEndian.Uint64(b[4:]))
		}
		for _, w := range wrs {
			ar := c.H.L.Archives[w.a]
			base, _ := slotAt(offs[w.a])
			iv := alignDown(w.t, ar.Step)
			idx := emod((iv-int64(base))/ar.Step, ar.Points)
			gi, gv := slotAt(offs[w.a] + 12*idx)
			// (only the highest archive's slots are final: writes to finer archives propagate upward and may overwrite)
			if w.a == len(c.H.L.Archives)-1 && (int64(gi) != iv || gv != w.v) {
				add("slot-placement", "%s (%d bytes): archive %d point (t=%d, v=%v) is not at byte offset %d (slot %d relative to base %d): found interval %d value %v", c.H.L, c.H.L.FileSize(), w.a, w.t, w.v, offs[w.a]+12*idx, idx, base, gi, gv)
				return
			}
			if w.a < len(c.H.L.Archives)-1 && int64(gi) != iv {
				add("slot-placement", "%s (%d bytes): archive %d interval %d is not at byte offset %d: found interval %d", c.H.L, c.H.L.FileSize(), w.a, iv, offs[w.a]+12*idx, gi)
				return
			}
		}
		// reopen and read the same slots back through the library
		db2, e := openWT(path, wt.WithoutFlock())
		if e != nil {
			add("whispertool-open", "whispertool cannot reopen the %d-byte file it created (%s): %v", st.Size(), c.H.L, e)
			return
		}
		defer db2.Close()
		la := len(c.H.L.Archives) - 1
		for _, w := range wrs {
			if w.a != la {
				continue
			}
			ar := c.H.L.Archives[w.a]
			iv := alignDown(w.t, ar.Step)
			r := fetchWT(db2, w.a, iv-ar.Step, iv, now) // the window whose first slot is iv (C04)
			if r.Err != nil || r.Nil || r.Panic != "" || len(r.S.Values) < 1 || r.S.From != iv || r.S.Values[0] != w.v {
				add("fetch-value-mismatch", "%s (%d bytes): archive %d value written at t=%d reads back as err=%v nil=%v panic=%s values=%v, want %v", c.H.L, c.H.L.FileSize(), w.a, w.t, r.Err, r.Nil, r.Panic, r.S.Values, w.v)
				return
			}
		}
		cls := []string{"writer=whispertool-huge", "huge-created+verified"}
		if c.H.L.FileSize() > 1<<32-4096 {
			cls = append(cls, "file-within-one-page-of-4GiB")
		}
		ev.Count(HashJSON(c), true, cls...)
		if ev.WantSample() {
			ev.Sample(c)
		}
		return nil
	case "go-whisper-sparse":
		// a layout whose file is between 2 GiB and 4 GiB, created sparse by the reference implementation
		saved := gw.Now
		gw.Now = func() time.Time { return time.Unix(now, 0) }
		db, err := gw.CreateWithOptions(path, gwRetentions(c.H.L), gw.AggregationMethod(c.H.L.Method), c.H.L.XFF, &gw.Options{Sparse: true})
		if err != nil {
			gw.Now = saved
			ev.Discard("go-whisper-create-failed")
			return nil
		}
		guard(func() { db.Update(42.5, int(now-3)) })
		db.Close()
		gw.Now = saved
		st, serr := os.Stat(path)
		if serr != nil || st.Size() != c.H.L.FileSize() {
			ev.Discard("sparse-file-unavailable")
			return nil
		}
		w, werr := openWT(path, wt.WithoutFlock())
		if werr != nil {
			add("whispertool-open", "whispertool cannot open a %d-byte reference-written file (%s): %v", st.Size(), c.H.L, werr)
			return
		}
		r := fetchWT(w, -1, now-10, now, now)
		w.Close()
		if r.Err != nil || r.Nil || len(r.S.Values) != 10 || r.S.Values[6] != 42.5 {
			add("fetch-value-mismatch", "reading the reference-written %d-byte file: err=%v nil=%v values=%v (42.5 was stored at now-3)", st.Size(), r.Err, r.Nil, r.S.Values)
			return
		}
		ev.Count(HashJSON(c), true, "writer=go-whisper-sparse", "file>2GiB")
		return nil
	case "go-whisper":
		saved := gw.Now
		defer func() { gw.Now = saved }()
		gw.Now = func() time.Time { return time.Unix(now, 0) }
		var db *gw.Whisper
		var err error
		if pm := guard(func() {
			db, err = gw.CreateWithOptions(path, gwRetentions(c.H.L), gw.AggregationMethod(c.H.L.Method), c.H.L.XFF, &gw.Options{})
		}); pm != "" || err != nil {
			ev.Discard("go-whisper-create-failed")
			return nil
		}
		for _, op := range c.H.Ops {
			var opErr error
			pm := guard(func() {
				switch op.Kind {
				case "update":
					opErr = db.Update(float64(op.V), int(op.T))
				case "batch":
					var pts []*gw.TimeSeriesPoint
					for _, p := range op.Points {
						pts = append(pts, &gw.TimeSeriesPoint{Time: int(p.T), Value: float64(p.V)})
					}
					opErr = db.UpdateMany(pts)
				case "advance":
					now += op.Advance
				}
			})
			if pm != "" {
				// the reference writer's own quirks are not under test
				db.Close()
				ev.Discard("go-whisper-writer-panicked")
				return nil
			}
			_ = opErr
		}
		db.Close()
	}

	b, err := os.ReadFile(path)
	if err != nil {
		add("read-error", "%v", err)
		return
	}
	// (a) the bytes are a classic Whisper file
	f, perr := ParseWsp(b)
	if perr != nil {
		add("format", "%s-written file is not classic Whisper: %v", c.Writer, perr)
		return
	}
	if c.Writer == "go-whisper" {
		// the reference WRITER has quirks of its own (a batch spanning more consecutive intervals than an archive
		// has slots - points of age == retention, future points - is written past the archive's end into the next
		// archive): a reference-written file that is not a classic file is outside the property's domain
		for a, ar := range c.H.L.Archives {
			base := int64(f.Slots[a][0].Interval)
			for j, s := range f.Slots[a] {
				if s.Interval == 0 {
					continue
				}
				if int64(s.Interval)%ar.Step != 0 || emod(floorDiv(int64(s.Interval)-base, ar.Step), ar.Points) != int64(j) {
					ev.Discard("reference-writer-produced-a-non-classic-file")
					return nil
				}
			}
		}
	}
	if c.Writer == "whispertool" || c.Writer == "cli-copy" {
		want := EncodeLayoutHeader(c.H.L)
		if string(b[:len(want)]) != string(want) {
			add("format-header", "header bytes %x differ from the specification encoding %x", b[:len(want)], want)
			return
		}
		if int64(len(b)) != c.H.L.FileSize() {
			add("format-length", "file has %d bytes, header + 12 x points = %d", len(b), c.H.L.FileSize())
			return
		}
		// logical content through the placement rule == model
		for a, ar := range c.H.L.Archives {
			base := int64(f.Slots[a][0].Interval)
			for j, s := range f.Slots[a] {
				if s.Interval == 0 {
					continue
				}
				if want := emod(floorDiv(int64(s.Interval)-base, ar.Step), ar.Points); want != int64(j) || int64(s.Interval)%ar.Step != 0 {
					add("format-placement", "archive %d: interval %d in physical slot %d; relative to the interval in the first slot (%d) it belongs in slot %d", a, s.Interval, j, base, want)
					return
				}
				if j > 0 && (int64(s.Interval) < base || int64(s.Interval) >= base+ar.Ret()) {
					wrapWritten++
				}
			}
			if model == nil {
				continue
			}
			for _, ms := range model.Rings[a] {
				v, ok := f.Lookup(a, ms.interval)
				if !ok || !sameF(v, ms.value) {
					add("format-content", "archive %d: the model holds (%d, %s); the bytes decoded by the format rule hold %s (present=%v)", a, ms.interval, fstr(ms.value), fstr(v), ok)
					return
				}
			}
		}
	}

	// (b) both readers on the same bytes
	saved := gw.Now
	defer func() { gw.Now = saved }()
	gw.Now = func() time.Time { return time.Unix(now, 0) }
	var g *gw.Whisper
	var gerr error
	if pm := guard(func() { g, gerr = gw.Open(path) }); pm != "" || gerr != nil {
		if c.Writer != "go-whisper" {
			add("reference-open", "go-whisper cannot open the whispertool-written file: %v %s", gerr, pm)
			return
		}
		ev.Discard("go-whisper-open-failed")
		return nil
	}
	defer g.Close()
	w, werr := openWT(path, wt.WithoutFlock())
	if werr != nil {
		add("whispertool-open", "whispertool cannot open the %s-written file: %v", c.Writer, werr)
		return
	}
	defer w.Close()
	// metadata
	if int(g.AggregationMethod()) != int(w.AggregationMethod()) || g.MaxRetention() != int(w.MaxRetention()) || math.Float32bits(g.XFilesFactor()) != math.Float32bits(w.XFilesFactor()) {
		add("metadata", "readers disagree: go-whisper (%d, %d, %v) whispertool (%d, %d, %v)", g.AggregationMethod(), g.MaxRetention(), g.XFilesFactor(), w.AggregationMethod(), w.MaxRetention(), w.XFilesFactor())
		return
	}
	if int(g.AggregationMethod()) != c.H.L.Method || int64(g.MaxRetention()) != c.H.L.MaxRet() || math.Float32bits(g.XFilesFactor()) != math.Float32bits(c.H.L.XFF) {
		add("metadata", "metadata read back (%d, %d, %v) differs from what was created (%s)", g.AggregationMethod(), g.MaxRetention(), g.XFilesFactor(), c.H.L)
		return
	}
	grs, wal := g.Retentions(), w.ArchiveInfoList()
	if len(grs) != len(wal) || len(grs) != len(c.H.L.Archives) {
		add("metadata", "archive counts: go-whisper %d whispertool %d created %d", len(grs), len(wal), len(c.H.L.Archives))
		return
	}
	for i := range grs {
		if grs[i].SecondsPerPoint() != int(wal[i].SecondsPerPoint()) || grs[i].NumberOfPoints() != int(wal[i].NumberOfPoints()) || int64(grs[i].SecondsPerPoint()) != c.H.L.Archives[i].Step || int64(grs[i].NumberOfPoints()) != c.H.L.Archives[i].Points {
			add("metadata", "archive %d: go-whisper %dx%d whispertool %dx%d created %dx%d", i, grs[i].SecondsPerPoint(), grs[i].NumberOfPoints(), wal[i].SecondsPerPoint(), wal[i].NumberOfPoints(), c.H.L.Archives[i].Step, c.H.L.Archives[i].Points)
			return
		}
	}
	wins := append([]Window(nil), c.Windows...)
	for _, a := range c.H.L.Archives {
		wins = append(wins, Window{From: now - a.Ret(), Until: now}, Window{From: now - a.Ret() + a.Step, Until: now - a.Step + 1})
	}
	valuesBoth, compared := 0, 0
	for _, win := range wins {
		if !nonDegenerate(c.H.L, win.From, win.Until, now) {
			continue
		}
		var gts *gw.TimeSeries
		var gerr error
		if pm := guard(func() { gts, gerr = g.Fetch(int(win.From), int(win.Until)) }); pm != "" {
			ev.Class("go-whisper-fetch-panicked")
			continue
		}
		r := fetchWT(w, -1, win.From, win.Until, now)
		ctx := fmt.Sprintf("%s-written file, Fetch(from=%d until=%d) at now=%d", c.Writer, win.From, win.Until, now)
		if r.Panic != "" {
			add("fetch-panic", "%s: whispertool panicked: %s", ctx, r.Panic)
			return
		}
		if (gerr != nil) != (r.Err != nil) {
			add("fetch-error-mismatch", "%s: go-whisper err=%v whispertool err=%v", ctx, gerr, r.Err)
			return
		}
		if gerr != nil {
			continue
		}
		if (gts == nil) != r.Nil {
			add("fetch-nil-mismatch", "%s: go-whisper nil=%v whispertool nil=%v", ctx, gts == nil, r.Nil)
			return
		}
		if gts == nil {
			continue
		}
		compared++
		if int64(gts.FromTime()) != r.S.From || int64(gts.UntilTime()) != r.S.Until || int64(gts.Step()) != r.S.Step || len(gts.Values()) != len(r.S.Values) {
			add("fetch-shape-mismatch", "%s: go-whisper %d..%d/%d n=%d whispertool %d..%d/%d n=%d", ctx, gts.FromTime(), gts.UntilTime(), gts.Step(), len(gts.Values()), r.S.From, r.S.Until, r.S.Step, len(r.S.Values))
			return
		}
		any := false
		for i, gv := range gts.Values() {
			if !sameF(gv, r.S.Values[i]) {
				add("fetch-value-mismatch", "%s: slot t=%d go-whisper %s whispertool %s", ctx, r.S.From+int64(i)*r.S.Step, fstr(gv), fstr(r.S.Values[i]))
				return
			}
			if gv == gv {
				any = true
			}
		}
		if any {
			valuesBoth++
		}
	}
	written := 0
	for a := range f.Slots {
		if f.Slots[a][0].Interval != 0 {
			written++
		}
	}
	nontrivial := written >= 2 && valuesBoth > 0
	cls := []string{"writer=" + c.Writer}
	if wrapWritten > 0 {
		cls = append(cls, "wrapped-ring")
	}
	if valuesBoth > 0 {
		cls = append(cls, "values-read-by-both")
	}
	ev.ClassN("windows-compared", compared)
	ev.Count(HashJSON(c), nontrivial, cls...)
	if nontrivial && ev.WantSample() && len(c.H.Ops) < 10 {
		ev.Sample(c)
	}
	return nil
}

func TestC06(t *testing.T) {
	RunProperty(t, Property[C06Case]{
		NoteCases:   true,
		ID:          "C06",
		Rule:        "rapid-generated layouts x methods x xFilesFactors x write histories by either writer (whispertool with explicit clock; go-whisper with whisper.Now mocked, uncompressed), clock advances up to 3 retentions so rings wrap; then (a) the synced bytes are decoded by the independent specification parser: header encoding, contiguous offsets in declaration order, exact length, every stored interval at the slot the base-interval rule gives, logical content == model (whispertool writer); (b) go-whisper and whispertool open the same bytes and must agree on metadata and on Fetch(from, until) (best archive) for 4 generated + 2 per-archive non-degenerate windows. Non-trivial: >=2 archives written and >=1 window in which both readers return a value. Distinct = hash of the case. Degenerate windows are excluded as the property says; write semantics are not compared.",
		Assumptions: []string{"clocks in 2017-2030 (go-whisper uses int clocks of its own)", "cases in which the reference writer itself panics or fails are discarded and counted"},
		Gen: func(t *rapid.T) C06Case {
			o := defaultLayoutOpts()
			o.HugePct = 2     // archives of thousands of slots: windows longer than any bulk-read buffer
			o.BigRatioPct = 2 // hundreds / thousands of finer slots per coarser slot
			l := genLayout(t, o)
			if rapid.IntRange(0, 29).Draw(t, "manyArchives") == 0 {
				l = genManyArchiveLayout(t)
			}
			if rapid.IntRange(0, 39).Draw(t, "huge") == 0 {
				return genHugeC06(t)
			}
			c := C06Case{Writer: rapid.SampledFrom([]string{"whispertool", "whispertool", "whispertool", "go-whisper", "go-whisper", "cli-copy"}).Draw(t, "writer")}
			start := genNowRealistic(t, l)
			if c.Writer != "go-whisper" && rapid.IntRange(0, 9).Draw(t, "epochHigh") == 0 {
				if hiStart := int64(1)<<32 - 4*l.MaxRet() - 1000000; hiStart > 1<<31 {
					start = rapid.Int64Range(1<<31, hiStart).Draw(t, "nowHigh")
				}
			}
			c.H = genHistoryAt(t, l, histGenOpts{MaxOps: 14, FuturePct: 0, StaleNamed: false}, start)
			final := c.H.Now
			for _, op := range c.H.Ops {
				final += op.Advance
			}
			for i := 0; i < 4; i++ {
				c.Windows = append(c.Windows, genWindow(t, l, final, false))
			}
			return c
		},
		Run: runC06,
		Fixed: func() []C06Case {
			y := int64(365 * 86400)
			maxP := (int64(1)<<32 - 1 - 28) / 12 // the last single-archive size whose end fits 32 bits
			huge := func(as ...Arch) C06Case {
				return C06Case{Writer: "whispertool-huge", H: HistCase{L: Layout{Archives: as, Method: 2, XFF: 0.5}, Now: 1600000000}}
			}
			return []C06Case{
				huge(Arch{Step: 1, Points: maxP}), huge(Arch{Step: 1, Points: maxP + 1}), huge(Arch{Step: 1, Points: 400000000}),
				huge(Arch{Step: 1, Points: 300000000}, Arch{Step: 2, Points: 400000000}),
				huge(Arch{Step: 1, Points: 100000000}, Arch{Step: 4, Points: 250000000}),
				{Writer: "go-whisper-sparse", H: HistCase{L: Layout{Archives: []Arch{{Step: 1, Points: 6 * y}}, Method: 2, XFF: 0.5}, Now: 1600000000}}}
		},
	})
}

// genHugeC06 draws a 1-3 archive layout whose file ends between 3.9 and 4.6 GiB (or anywhere up to 12 GiB).
func genHugeC06(t *rapid.T) C06Case {
	n := rapid.IntRange(1, 3).Draw(t, "hugeArchives")
	var total int64
	switch rapid.IntRange(0, 2).Draw(t, "hugeSizeKind") {
	case 0: // within a few slots of 2^32 bytes
		total = (int64(1)<<32-16-int64(12*n))/12 + rapid.Int64Range(-3, 3).Draw(t, "hugeDelta")
	case 1:
		total = rapid.Int64Range(325000000, 385000000).Draw(t, "hugePoints")
	default:
		total = rapid.Int64Range(300000000, 1000000000).Draw(t, "hugePoints")
	}
	// split the points over n archives with steps 1, r1, r1*r2 so that retentions strictly increase
	as := make([]Arch, n)
	step := int64(1)
	left := total
	for i := 0; i < n; i++ {
		as[i].Step = step
		if i == n-1 {
			as[i].Points = left
		} else {
			as[i].Points = left / int64(2*(n-i)) // the later archives get more points: retention grows
			left -= as[i].Points
			step *= int64(rapid.SampledFrom([]int{2, 3, 5}).Draw(t, "hugeRatio"))
		}
	}
	l := Layout{Archives: as, Method: rapid.IntRange(1, 6).Draw(t, "m"), XFF: 0.5}
	now := int64(1<<31) - 1000000 + rapid.Int64Range(0, 999).Draw(t, "hugeNow")
	if l.MaxRet() > math.MaxInt32 {
		// not a storable retention: C07 territory, and the checks above would be vacuous
		as[n-1].Points = math.MaxInt32 / as[n-1].Step
	}
	if now < l.MaxRet()+2*as[n-1].Step {
		now = l.MaxRet() + 2*as[n-1].Step + 7
	}
	return C06Case{Writer: "whispertool-huge", H: HistCase{L: l, Now: now}}
}
