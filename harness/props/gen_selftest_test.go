package props

import (
	"testing"

	"pgregory.net/rapid"
)

// TestGenLayoutsValid is a self-test of the harness, not a property check: every layout generator must
// produce lists that the reference validity rules accept, with retentions below 2^30 (zone Z7 needs room).
func TestGenLayoutsValid(t *testing.T) {
	rapid.Check(t, func(t *rapid.T) {
		o := defaultLayoutOpts()
		o.MinArchives = rapid.IntRange(1, 2).Draw(t, "min")
		o.AllowMultiPage = rapid.Bool().Draw(t, "multi")
		o.HugePct = rapid.SampledFrom([]int{0, 50}).Draw(t, "hugePct")
		o.BigRatioPct = rapid.SampledFrom([]int{0, 50}).Draw(t, "bigPct")
		var l Layout
		switch rapid.IntRange(0, 2).Draw(t, "which") {
		case 0:
			l = genLayout(t, o)
		case 1:
			l = genManyArchiveLayout(t)
		default:
			l = genCLILayout(t)
		}
		var raw []RawArch
		for _, a := range l.Archives {
			raw = append(raw, RawArch{Step: a.Step, Points: a.Points})
		}
		if v, why := ValidLayout(raw); v != Valid {
			t.Fatalf("generator produced an invalid layout %s: %s", l, why)
		}
		if l.MaxRet() > 1<<30 {
			t.Fatalf("retention %d beyond 2^30: %s", l.MaxRet(), l)
		}
		sub := subtleLayoutVariant(l)
		raw = raw[:0]
		for _, a := range sub.Archives {
			raw = append(raw, RawArch{Step: a.Step, Points: a.Points})
		}
		if v, why := ValidLayout(raw); v != Valid {
			t.Fatalf("subtleLayoutVariant(%s) = %s is invalid: %s", l, sub, why)
		}
	})
}
