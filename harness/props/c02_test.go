package props

import (
	"fmt"
	"testing"

	"pgregory.net/rapid"
)

// C02 - downsampling. Oracle: the full reference model incl. level-by-level propagation; after
// every operation the complete physical content of every archive (stale laps included) must equal
// the model ring, so a slot recomputed wrongly, stored when it must be skipped, skipped when it
// must be stored, or touched without covering a written point all show up.
func runC02(c HistCase, ev *Evid) (fs []Finding) {
	h, err := newHistRunner("C02", c.L, c.Now)
	if err != nil {
		return []Finding{{Property: "C02", Key: "create-error", Detail: fmt.Sprintf("Create(%s): %v", c.L, err)}}
	}
	defer h.close()
	for i, op := range c.Ops {
		h.step = i
		f := h.apply(op)
		if h.m.Stats.Z1 {
			ev.Class("float32-xff-boundary-met")
		}
		if len(f) > 0 {
			return f
		}
		if h.db == nil {
			break
		}
		if op.Kind != "update" && op.Kind != "batch" && op.Kind != "reopen" {
			continue
		}
		raw, f := h.rawState()
		if len(f) > 0 {
			return f
		}
		if f := h.compareRawToModel(raw, h.m, -1); len(f) > 0 {
			return f
		}
		for a := range c.L.Archives {
			w := Window{ID: a, From: h.now - c.L.Archives[a].Ret(), Until: h.now}
			sh, vals := h.m.Fetch(w.ID, w.From, w.Until, h.now)
			r := fetchWT(h.db, w.ID, w.From, w.Until, h.now)
			if f := compareFetch("C02", fmt.Sprintf("step %d full window of archive %d", i, a), r, sh, vals); len(f) > 0 {
				return f
			}
		}
	}
	st := h.m.Stats
	nontrivial := st.Recomputed2 > 0 || st.XffSkip > 0 || st.ZeroKnown > 0
	cls := []string{fmt.Sprintf("method=%d", c.L.Method), fmt.Sprintf("levels=%d", len(c.L.Archives))}
	if st.Recomputed2 > 0 {
		cls = append(cls, "recomputed-from>=2")
	}
	if st.XffSkip > 0 {
		cls = append(cls, "xff-skip-with-known")
	}
	if st.ZeroKnown > 0 {
		cls = append(cls, "zero-known")
	}
	if st.Levels >= 2 {
		cls = append(cls, "propagated>=2-levels")
	}
	for i := 0; i+1 < len(c.L.Archives); i++ {
		if c.L.Archives[i].Points == c.L.Archives[i+1].Step/c.L.Archives[i].Step {
			cls = append(cls, "points==ratio")
		}
		if c.L.Archives[i+1].Ret()-c.L.Archives[i].Ret() <= c.L.Archives[i+1].Step {
			cls = append(cls, "coarser-barely-longer")
		}
	}
	switch c.L.XFF {
	case 0:
		cls = append(cls, "xff=0")
	case 1:
		cls = append(cls, "xff=1")
	}
	ev.Count(HashJSON(c), nontrivial, cls...)
	if nontrivial && ev.WantSample() {
		ev.Sample(c)
	}
	return nil
}

func TestC02(t *testing.T) {
	RunProperty(t, Property[HistCase]{
		ID:          "C02",
		Rule:        "rapid-generated histories on 2-4 level layouts (tight shapes: points==ratio, coarser ring barely longer; all six methods; xff in {0,1,k/ratio,random}); after every write the whole physical content of every archive and its full-retention fetch are compared with the reference model's propagation. Non-trivial: some coarser slot was recomputed from >=2 known values, or xff decided 'skip' with >=1 known value, or a coarser interval had zero known values. Distinct = hash of the whole case. Cases meeting the float32-vs-exact xff boundary (zone Z1) are discarded and counted.",
		Assumptions: []string{"zone Z7 clocks", "values incl. +-Inf, +-MaxFloat64 and NaN-valued points (a stored NaN is a known value of its interval); NaN is kept away from max / min aggregation, whose comparison semantics the statement does not define (Z8)", "Z2: same-slot points with distinct timestamps supplied in time order", "sum/average accumulate left to right in float64 (the statement's 'in time order')"},
		Gen: func(t *rapid.T) HistCase {
			o := defaultLayoutOpts()
			o.MinArchives = 2
			o.BigRatioPct = 4
			o.HugePct = 3 // a finest archive of thousands of slots: batches longer than any internal chunk / page run
			l := genLayout(t, o)
			if l.Archives[0].Points > 2000 {
				return genHistory(t, l, histGenOpts{MaxOps: 5, FuturePct: 5, StaleNamed: true, Reopen: true, BigBatches: true})
			}
			return genHistory(t, l, histGenOpts{MaxOps: 25, FuturePct: 5, StaleNamed: true, Reopen: true})
		},
		Run:  runC02,
		Trim: trimHist,
		// every step ratio from 2 to 128 with a coarse interval known to exactly the required fraction (all of it for
		// xFilesFactor 1, half of it for 0.5, one point in five for 0.2): how k/n is rounded differs by ratio
		Fixed: func() []HistCase {
			var out []HistCase
			for r := int64(2); r <= 128; r++ {
				for _, fr := range [][2]int64{{1, 1}, {1, 2}, {1, 5}, {3, 10}} {
					if r%fr[1] != 0 {
						continue
					}
					k := r * fr[0] / fr[1]
					l := Layout{Archives: []Arch{{Step: 1, Points: 2 * r}, {Step: r, Points: 4}}, Method: 2, XFF: float32(float64(fr[0]) / float64(fr[1]))}
					now := int64(1500000000)
					base := alignDown(now-r, r)
					var pts []MPoint
					for i := int64(0); i < k; i++ {
						pts = append(pts, MPoint{T: base + i, V: F64(float64(i + 1))})
					}
					out = append(out, HistCase{L: l, Now: now, Ops: []Op{{Kind: "batch", ID: 0, Points: pts}}})
				}
			}
			return out
		},
	})
}
