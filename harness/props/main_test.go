package props

import (
	"io"
	"log"
	"os"
	"strconv"
	"testing"
	"time"
)

func TestMain(m *testing.M) {
	switch os.Getenv("VERIF_CHILD") {
	case "c15":
		childMainC15()
		os.Exit(0)
	case "c13":
		childMainC13()
		os.Exit(0)
	case "sleep":
		ms, _ := strconv.Atoi(os.Getenv("VERIF_SLEEP_MS"))
		time.Sleep(time.Duration(ms) * time.Millisecond)
		os.Exit(0)
	}
	// everything whispertool prints or parses is defined in UTC; run with a local zone that is far from
	// UTC so that an accidental use of local time shows (sound: correct code never consults time.Local)
	time.Local = time.FixedZone("VERIF", 9*3600+1800)
	// server handlers and some commands log through the standard logger
	if os.Getenv("VERIF_KEEP_LOG") == "" {
		log.SetOutput(io.Discard)
	}
	os.Exit(m.Run())
}

func TestChildNoop(t *testing.T) {}
