package props

import (
	"io"
	"log"
	"os"
	"testing"
)

func TestMain(m *testing.M) {
	switch os.Getenv("VERIF_CHILD") {
	case "c15":
		childMainC15()
		os.Exit(0)
	case "c13":
		childMainC13()
		os.Exit(0)
	}
	// server handlers and some commands log through the standard logger
	if os.Getenv("VERIF_KEEP_LOG") == "" {
		log.SetOutput(io.Discard)
	}
	os.Exit(m.Run())
}

func TestChildNoop(t *testing.T) {}
