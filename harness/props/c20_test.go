package props

import (
	"bytes"
	"fmt"
	"math"
	"os"
	"path/filepath"
	"sync"
	"testing"
	"time"

	wt "github.com/hnakamur/whispertool"
	"github.com/hnakamur/whispertool/cmd"
	"pgregory.net/rapid"
)

// C20 - generate produces a complete, self-consistent file with the requested layout.
type C20Case struct {
	Now      int64  `json:"now"`
	L        Layout `json:"layout"`
	Max      int    `json:"max"`
	Fill     bool   `json:"fill"`
	Existing string `json:"existing"` // "" | "garbage" | "whisper"
	// Skew: seconds by which the library's own clock (whispertool.Now) runs ahead of the command's
	Skew int64 `json:"skew"`
	// Rival, when set: a second generate run for the same destination, with this method (1-6, different from the
	// layout's) and one more point in the last archive, executes at the same time
	Rival int `json:"rival,omitempty"`
	// Parallel, when > 0: this many further generate runs (same request, other destinations) execute at the same
	// time in the same process; the file checked is the Pick-th of them (0 = the case's own)
	Parallel int `json:"parallel,omitempty"`
	Pick     int `json:"pick,omitempty"`
}

// runC20BeyondClock: a layout whose coarsest retention is longer than the time since the epoch (1y:60y at any clock
// before 2030). The time arithmetic of the other checks' models does not reach there (zone Z7), so only the part of
// the property that needs no such arithmetic is judged: the run succeeds, the file has the requested header, and
// with fill the slot that contains the generation instant holds a non-negative value in every archive.
func runC20BeyondClock(c C20Case, ev *Evid) (fs []Finding) {
	add := func(key, format string, args ...interface{}) {
		fs = append(fs, Finding{Property: "C20", Key: key, Detail: fmt.Sprintf(format, args...)})
	}
	dir := scratchDir()
	defer os.RemoveAll(dir)
	path := filepath.Join(dir, "gen.wsp")
	gc := &cmd.GenerateCommand{Dest: path, Perm: 0644, AggregationMethod: wt.AggregationMethod(c.L.Method), XFilesFactor: c.L.XFF, ArchiveInfoList: wtArchives(c.L), RandMax: c.Max, Fill: c.Fill, TextOut: ""}
	var err error
	pm := atClock(c.Now, func() { err = gc.Execute() })
	desc := fmt.Sprintf("generate now=%d layout=%s max=%d fill=%v (the coarsest retention, %d s, is longer than the time since the epoch)", c.Now, c.L, c.Max, c.Fill, c.L.MaxRet())
	if pm != "" {
		add("generate-panic", "%s: panicked: %s", desc, pm)
		return
	}
	if err != nil {
		add("generate-error", "%s: %v", desc, err)
		return
	}
	b, rerr := os.ReadFile(path)
	if want := EncodeLayoutHeader(c.L); rerr != nil || len(b) < len(want) || !bytes.Equal(b[:len(want)], want) || int64(len(b)) != c.L.FileSize() {
		add("header", "%s: reported success but the file (%d bytes, %v) does not have the requested layout", desc, len(b), rerr)
		return
	}
	if c.Fill {
		db, oerr := openWT(path, wt.WithoutFlock())
		if oerr != nil {
			add("reopen", "%s: %v", desc, oerr)
			return
		}
		defer db.Close()
		for a, ar := range c.L.Archives {
			if ar.Ret() <= c.Now {
				continue // archives the clock covers are the ordinary cases' business
			}
			raw, gerr := db.GetAllRawUnsortedPoints(a)
			if gerr != nil {
				add("reopen", "%s: raw dump of archive %d: %v", desc, a, gerr)
				return
			}
			slot := alignDown(c.Now, ar.Step)
			found := false
			for _, p := range raw {
				if int64(p.Time) == slot && float64(p.Value) >= 0 {
					found = true
				}
			}
			if !found {
				add("fill-empty-retention-beyond-clock", "%s: success was reported, but archive %d holds no value in the slot of the generation instant (t=%d); non-empty physical slots: %d of %d", desc, a, slot, countWritten(raw), len(raw))
				return
			}
		}
	}
	ev.Count(HashJSON(c), true, "retention-beyond-clock")
	return nil
}

func countWritten(raw wt.Points) int {
	n := 0
	for _, p := range raw {
		if p.Time != 0 {
			n++
		}
	}
	return n
}

func runC20(c C20Case, ev *Evid) (fs []Finding) {
	add := func(key, format string, args ...interface{}) {
		fs = append(fs, Finding{Property: "C20", Key: key, Detail: fmt.Sprintf(format, args...)})
	}
	if c.L.MaxRet() > c.Now {
		return runC20BeyondClock(c, ev)
	}
	dir := scratchDir()
	defer os.RemoveAll(dir)
	path := filepath.Join(dir, "gen.wsp")
	var before []byte
	switch c.Existing {
	case "garbage":
		before = []byte("not a whisper file")
		os.WriteFile(path, before, 0644)
	case "whisper":
		if err := buildFile(path, FileSpec{L: c.L, Writes: []SlotWrite{{Arch: 0, T: c.Now, V: 42}}}, c.Now); err != nil {
			add("setup", "%v", err)
			return
		}
		before, _ = os.ReadFile(path)
	}
	if c.Rival != 0 && c.Existing == "" {
		// two runs race for one destination: whichever creates the file, the other must refuse it
		rl := Layout{Method: c.Rival, XFF: c.L.XFF, Archives: append([]Arch(nil), c.L.Archives...)}
		rl.Archives[len(rl.Archives)-1].Points++
		cmds := []*cmd.GenerateCommand{
			{Dest: path, Perm: 0644, AggregationMethod: wt.AggregationMethod(c.L.Method), XFilesFactor: c.L.XFF, ArchiveInfoList: wtArchives(c.L), RandMax: c.Max, Fill: c.Fill, TextOut: ""},
			{Dest: path, Perm: 0644, AggregationMethod: wt.AggregationMethod(rl.Method), XFilesFactor: rl.XFF, ArchiveInfoList: wtArchives(rl), RandMax: c.Max, Fill: c.Fill, TextOut: ""},
		}
		errs := make([]error, 2)
		pms := make([]string, 2)
		pm := atClock(c.Now, func() {
			var wg sync.WaitGroup
			for i := range cmds {
				wg.Add(1)
				go func(i int) {
					defer wg.Done()
					pms[i] = guard(func() { errs[i] = cmds[i].Execute() })
				}(i)
			}
			wg.Wait()
		})
		desc := fmt.Sprintf("two concurrent generate runs now=%d layouts %s / %s fill=%v", c.Now, c.L, rl, c.Fill)
		if pm != "" || pms[0] != "" || pms[1] != "" {
			add("generate-panic", "%s: panicked: %s %s %s", desc, pm, pms[0], pms[1])
			return
		}
		if errs[0] == nil && errs[1] == nil {
			add("overwrote-existing", "%s: both reported success - one of them replaced the file the other had created", desc)
			return
		}
		b, _ := os.ReadFile(path)
		for i, l := range []Layout{c.L, rl} {
			if errs[i] == nil {
				if want := EncodeLayoutHeader(l); len(b) < len(want) || !bytes.Equal(b[:len(want)], want) || int64(len(b)) != l.FileSize() {
					add("header", "%s: run %d reported success but the file (%d bytes) does not have its layout", desc, i, len(b))
					return
				}
			}
		}
		ev.Count(HashJSON(c), true, "rival-run")
		return nil
	}
	gc := &cmd.GenerateCommand{Dest: path, Perm: 0644, AggregationMethod: wt.AggregationMethod(c.L.Method), XFilesFactor: c.L.XFF, ArchiveInfoList: wtArchives(c.L), RandMax: c.Max, Fill: c.Fill, TextOut: ""}
	libClockSkew = time.Duration(c.Skew) * time.Second
	var err error
	var pm string
	if c.Parallel > 0 && c.Existing == "" {
		cmds := []*cmd.GenerateCommand{gc}
		for i := 1; i <= c.Parallel; i++ {
			g := *gc
			g.Dest = filepath.Join(dir, fmt.Sprintf("gen-%d.wsp", i))
			cmds = append(cmds, &g)
		}
		errs := make([]error, len(cmds))
		pms := make([]string, len(cmds))
		pm = atClock(c.Now, func() {
			var wg sync.WaitGroup
			for i := range cmds {
				wg.Add(1)
				go func(i int) {
					defer wg.Done()
					pms[i] = guard(func() { errs[i] = cmds[i].Execute() })
				}(i)
			}
			wg.Wait()
		})
		for i := range cmds {
			if pm == "" && pms[i] != "" {
				pm = pms[i]
			}
			if err == nil && errs[i] != nil {
				err = errs[i]
			}
		}
		path = cmds[c.Pick%len(cmds)].Dest
	} else {
		err, pm = runCommand(c.Now, gc)
	}
	libClockSkew = time.Second
	desc := fmt.Sprintf("generate now=%d layout=%s max=%d fill=%v existing=%q parallel=%d", c.Now, c.L, c.Max, c.Fill, c.Existing, c.Parallel)
	if pm != "" {
		add("generate-panic", "%s: panicked: %s", desc, pm)
		return
	}
	if c.Existing != "" {
		if err == nil {
			add("overwrote-existing", "%s: reported success although the destination exists", desc)
			return
		}
		if b, _ := os.ReadFile(path); !bytes.Equal(b, before) {
			add("existing-modified", "%s: the existing destination was modified", desc)
			return
		}
		ev.Count(HashJSON(c), false, "existing-destination")
		return nil
	}
	if err != nil {
		add("generate-error", "%s: %v", desc, err)
		return
	}
	b, rerr := os.ReadFile(path)
	if rerr != nil {
		add("no-file", "%s: no file was created: %v", desc, rerr)
		return
	}
	f, perr := ParseWsp(b)
	if perr != nil {
		add("format", "%s: %v", desc, perr)
		return
	}
	if want := EncodeLayoutHeader(c.L); !bytes.Equal(b[:len(want)], want) {
		add("header", "%s: header %x, requested layout/method/xFilesFactor encode as %x", desc, b[:len(want)], want)
		return
	}
	if !c.Fill {
		for a := range f.Slots {
			for j, s := range f.Slots[a] {
				if s.Interval != 0 || math.Float64bits(s.Value) != 0 {
					add("not-empty", "%s: without fill archive %d slot %d holds (%d, %s)", desc, a, j, s.Interval, fstr(s.Value))
					return
				}
			}
		}
		ev.Count(HashJSON(c), false, "no-fill")
		return nil
	}
	full, _ := readArchives(path, c.L, 0, c.Now, c.Now)
	covered := 0
	for a, ar := range c.L.Archives {
		r := full[a]
		if r.Nil || r.Err != nil || int64(len(r.S.Values)) != ar.Points {
			add("window", "%s: archive %d full window has %d slots (nil=%v err=%v), archive has %d", desc, a, len(r.S.Values), r.Nil, r.Err, ar.Points)
			return
		}
		for k, v := range r.S.Values {
			tt := r.S.From + int64(k)*r.S.Step
			if v != v {
				add("hole", "%s: archive %d slot t=%d inside (now-retention, now] is empty", desc, a, tt)
				return
			}
			if v < 0 || v != math.Trunc(v) || v*float64(c.L.Archives[0].Step) > float64(c.Max)*float64(ar.Step) {
				add("value-range", "%s: archive %d slot t=%d holds %v; allowed are integers in [0, %d x %d/%d]", desc, a, tt, v, c.Max, ar.Step, c.L.Archives[0].Step)
				return
			}
		}
		if a == 0 {
			continue
		}
		fine := full[a-1]
		fs0, fstep := fine.S.From, fine.S.Step
		ratio := ar.Step / fstep
		for k, v := range r.S.Values {
			tt := r.S.From + int64(k)*r.S.Step
			// all finer slots tt, tt+s, ... retained?
			first := (tt - fs0) / fstep
			if tt < fs0 || (tt-fs0)%fstep != 0 || first+ratio > int64(len(fine.S.Values)) {
				continue
			}
			sum := 0.0
			for j := int64(0); j < ratio; j++ {
				sum += fine.S.Values[first+j]
			}
			covered++
			if v != sum {
				add("coarse-not-sum", "%s: archive %d slot t=%d holds %v; its %d retained finer slots sum to %v", desc, a, tt, v, ratio, sum)
				return
			}
		}
	}
	nontrivial := len(c.L.Archives) >= 2 && covered > 0
	cls := []string{fmt.Sprintf("max=%d", c.Max)}
	if c.Now >= 1<<31 {
		cls = append(cls, "epoch-high")
	}
	aligned := 0
	for _, ar := range c.L.Archives {
		if c.Now%ar.Step == 0 {
			aligned++
		}
	}
	switch {
	case aligned == len(c.L.Archives):
		cls = append(cls, "instant-aligned-to-all")
	case aligned == 0:
		cls = append(cls, "instant-aligned-to-none")
	default:
		cls = append(cls, "instant-aligned-to-some")
	}
	if covered > 0 {
		cls = append(cls, "fully-covered-coarse-slot")
	}
	ev.Count(HashJSON(c), nontrivial, cls...)
	if nontrivial && ev.WantSample() {
		ev.Sample(c)
	}
	return nil
}

func TestC20(t *testing.T) {
	RunProperty(t, Property[C20Case]{
		NoteCases:   true,
		ID:          "C20",
		Rule:        "rapid-generated (layout of 1-3 archives, method, xff) x maximum in {0, 1, 7, 100, 10^6} x fill on/off x generation instant (aligned to all, some or no archive steps) x destination absent / existing garbage / existing whisper file x skew of the library's own clock (whispertool.Now runs 0-61 s ahead of the command's clock, modelling a tick between two readings); generate run at a controlled clock. Validity oracle (the values are random): existing destination => error and bytes unchanged; else header bytes == specification encoding of the request; without fill every slot is all-zero; with fill every slot of every archive's (now-retention, now] as fetched at now is a non-NaN integer in [0, max x step_a/step_0] and every coarser slot whose finer slots are all retained equals their (exact) sum. Non-trivial: fill with >=2 archives and >=1 fully covered coarser slot checked. Distinct = hash of the case.",
		Assumptions: []string{"the generator's own RNG is crypto-seeded: the verdict is deterministic only because it is a validity predicate"},
		Gen: func(t *rapid.T) C20Case {
			l := genCLILayout(t)
			if rapid.IntRange(0, 299).Draw(t, "giantArchive") == 137 {
				// more points in one archive than any plausible write batch (2^16 and beyond), as in 1s:1d
				n := rapid.SampledFrom([]int64{65535, 65536, 65537, 70000, 86400, 131072, 131073}).Draw(t, "giantPoints")
				l = Layout{Archives: []Arch{{Step: 1, Points: n}}, Method: l.Method, XFF: l.XFF}
				if rapid.Bool().Draw(t, "giantSecond") {
					l.Archives = append(l.Archives, Arch{Step: 60, Points: n/60 + 2 + rapid.Int64Range(0, 100).Draw(t, "giantSecondExtra")})
				}
			}
			now := genNowRealistic(t, l)
			if rapid.IntRange(0, 7).Draw(t, "epochHigh") == 0 {
				now = rapid.Int64Range(1<<31, 1<<32-4*l.MaxRet()-100000).Draw(t, "nowHigh") // 2038 .. 2106
			}
			switch rapid.IntRange(0, 3).Draw(t, "align") {
			case 0:
				now = alignDown(now, l.Archives[len(l.Archives)-1].Step)
			case 1:
				now = alignDown(now, l.Archives[0].Step)
			case 2:
				now = alignDown(now, l.Archives[len(l.Archives)-1].Step) + l.Archives[len(l.Archives)-1].Step - 1
			}
			c := C20Case{Now: now, L: l, Max: rapid.SampledFrom([]int{0, 1, 7, 100, 100, 1000000}).Draw(t, "max"), Fill: rapid.IntRange(0, 4).Draw(t, "fill") > 0}
			c.Skew = rapid.SampledFrom([]int64{0, 1, 1, l.Archives[0].Step, l.Archives[len(l.Archives)-1].Step, 61}).Draw(t, "skew")
			if rapid.IntRange(0, 7).Draw(t, "existing") == 0 {
				c.Existing = rapid.SampledFrom([]string{"garbage", "whisper"}).Draw(t, "existingKind")
			} else if rapid.IntRange(0, 7).Draw(t, "rival") == 0 {
				c.Rival = 1 + l.Method%6
			} else if c.Fill && rapid.IntRange(0, 5).Draw(t, "parallel") == 0 {
				c.Parallel = rapid.IntRange(2, 7).Draw(t, "parallelRuns")
				c.Pick = rapid.IntRange(0, c.Parallel).Draw(t, "pick")
			}
			return c
		},
		Run: runC20,
		Fixed: func() []C20Case {
			// more points in one archive than any plausible write batch (the generator reaches these sizes only
			// in the thorough tier)
			return []C20Case{
				{Now: 1500000123, L: Layout{Archives: []Arch{{Step: 1, Points: 65537}}, Method: 1, XFF: 0.5}, Max: 100, Fill: true},
				{Now: 1500000059, L: Layout{Archives: []Arch{{Step: 1, Points: 131073}, {Step: 60, Points: 2200}}, Method: 2, XFF: 0}, Max: 7, Fill: true, Skew: 1},
				// retentions longer than the time since the epoch (known finding: nothing is written, success is reported)
				{Now: 1500000000, L: Layout{Archives: []Arch{{Step: 31536000, Points: 60}}, Method: 1, XFF: 0.5}, Max: 100, Fill: true},
				{Now: 1500000000, L: Layout{Archives: []Arch{{Step: 86400, Points: 365}, {Step: 31536000, Points: 60}}, Method: 2, XFF: 0.5}, Max: 100, Fill: true},
				{Now: 1500000000, L: Layout{Archives: []Arch{{Step: 31536000, Points: 60}}, Method: 1, XFF: 0.5}, Max: 100, Fill: false},
			}
		},
	})
}
