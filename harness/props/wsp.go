package props

// Independent decoder/encoder of classic Whisper bytes (DESIGN.md §3.2), written from the
// format specification with encoding/binary only - it does not use the repo's codec.

import (
	"encoding/binary"
	"fmt"
	"math"
)

type WspArchive struct {
	Offset uint32
	Step   uint32
	Points uint32
}

type WspHeader struct {
	Agg      uint32
	MaxRet   uint32
	XFF      float32
	Count    uint32
	Archives []WspArchive
}

type WspSlot struct {
	Interval uint32
	Value    float64
}

type WspFile struct {
	H     WspHeader
	Slots [][]WspSlot
	Len   int
}

// ParseWspHeader decodes the header; it performs no semantic validation.
func ParseWspHeader(b []byte) (WspHeader, error) {
	var h WspHeader
	if len(b) < 16 {
		return h, fmt.Errorf("short meta: %d bytes", len(b))
	}
	h.Agg = binary.BigEndian.Uint32(b[0:])
	h.MaxRet = binary.BigEndian.Uint32(b[4:])
	h.XFF = math.Float32frombits(binary.BigEndian.Uint32(b[8:]))
	h.Count = binary.BigEndian.Uint32(b[12:])
	if uint64(len(b)) < 16+12*uint64(h.Count) {
		return h, fmt.Errorf("short archive table: %d bytes for %d archives", len(b), h.Count)
	}
	for i := uint32(0); i < h.Count; i++ {
		o := 16 + 12*int(i)
		h.Archives = append(h.Archives, WspArchive{
			Offset: binary.BigEndian.Uint32(b[o:]),
			Step:   binary.BigEndian.Uint32(b[o+4:]),
			Points: binary.BigEndian.Uint32(b[o+8:]),
		})
	}
	return h, nil
}

// ParseWsp decodes a whole file and checks the structural rules of the classic format:
// contiguous archives in declaration order and an exact total length.
func ParseWsp(b []byte) (*WspFile, error) {
	h, err := ParseWspHeader(b)
	if err != nil {
		return nil, err
	}
	f := &WspFile{H: h, Len: len(b)}
	off := uint64(16 + 12*len(h.Archives))
	for i, a := range h.Archives {
		if uint64(a.Offset) != off {
			return nil, fmt.Errorf("archive %d offset %d, contiguous layout wants %d", i, a.Offset, off)
		}
		end := off + 12*uint64(a.Points)
		if end > uint64(len(b)) {
			return nil, fmt.Errorf("archive %d ends at %d beyond file length %d", i, end, len(b))
		}
		slots := make([]WspSlot, a.Points)
		for j := range slots {
			o := int(off) + 12*j
			slots[j] = WspSlot{binary.BigEndian.Uint32(b[o:]), math.Float64frombits(binary.BigEndian.Uint64(b[o+4:]))}
		}
		f.Slots = append(f.Slots, slots)
		off = end
	}
	if off != uint64(len(b)) {
		return nil, fmt.Errorf("file length %d, header+12*points wants %d", len(b), off)
	}
	return f, nil
}

// Lookup reads the value stored for exactly `interval` in archive a, using only the classic
// placement rule: slot index = ((interval - base)/step) mod points, base = interval in slot 0.
func (f *WspFile) Lookup(a int, interval int64) (float64, bool) {
	ar := f.H.Archives[a]
	slots := f.Slots[a]
	base := int64(slots[0].Interval)
	if base == 0 {
		return math.NaN(), false
	}
	idx := emod(floorDiv(interval-base, int64(ar.Step)), int64(ar.Points))
	s := slots[idx]
	if int64(s.Interval) != interval {
		return math.NaN(), false
	}
	return s.Value, true
}

// EncodeWspHeader builds header bytes by the specification (harness-side encoder).
func EncodeWspHeader(agg uint32, maxRet uint32, xff float32, archives []WspArchive) []byte {
	b := make([]byte, 16+12*len(archives))
	binary.BigEndian.PutUint32(b[0:], agg)
	binary.BigEndian.PutUint32(b[4:], maxRet)
	binary.BigEndian.PutUint32(b[8:], math.Float32bits(xff))
	binary.BigEndian.PutUint32(b[12:], uint32(len(archives)))
	for i, a := range archives {
		o := 16 + 12*i
		binary.BigEndian.PutUint32(b[o:], a.Offset)
		binary.BigEndian.PutUint32(b[o+4:], a.Step)
		binary.BigEndian.PutUint32(b[o+8:], a.Points)
	}
	return b
}

// EncodeLayoutHeader builds the header of a valid layout with correct derived fields.
func EncodeLayoutHeader(l Layout) []byte {
	var as []WspArchive
	off := uint32(16 + 12*len(l.Archives))
	for _, a := range l.Archives {
		as = append(as, WspArchive{Offset: off, Step: uint32(a.Step), Points: uint32(a.Points)})
		off += uint32(12 * a.Points)
	}
	return EncodeWspHeader(uint32(l.Method), uint32(l.MaxRet()), l.XFF, as)
}
