#!/bin/bash
# developer aid: confirm a seeded change independently in a scratch worktree, then run our checks on it.
# usage: seedverify.sh <seed dir containing patch.diff + demo_test.go> <name> <ID>...
set -u
src=$1; name=$2; shift 2
export GOFLAGS=-mod=mod GOPROXY=off GOSUMDB=off
mkdir -p /tmp/wt; W=/tmp/wt/verify-$name
rm -rf $W; git -C /repo worktree prune; git -C /repo worktree add -q --detach $W HEAD || exit 2
res=""
cd $W
if ! git apply --check $src/patch.diff 2>/dev/null; then echo "RESULT $name: patch does not apply"; git -C /repo worktree remove --force $W; exit 2; fi
git apply $src/patch.diff
if ! go build ./... 2>/tmp/wt/build-$name.log; then echo "RESULT $name: does not build"; git -C /repo worktree remove --force $W; exit 2; fi
go test -vet=off -count=1 ./... > /tmp/wt/suite-$name.log 2>&1
failed=$(grep "^--- FAIL" /tmp/wt/suite-$name.log | awk '{print $3}' | sort -u | tr '\n' ' ')
if [ "$failed" = "TestCreateUpdateFetch " ] || [ "$failed" = "TestCompatAllActions " ]; then
  # known wall-clock flakes of the baseline suite (TestCreateUpdateFetch fails when time.Now()%300 is about 193..201;
  # TestCompatAllActions compares two libraries that read the clock separately and fails around an hour boundary): retry once
  sleep 75; go test -vet=off -count=1 ./... > /tmp/wt/suite-$name.log 2>&1
  failed=$(grep "^--- FAIL" /tmp/wt/suite-$name.log | awk '{print $3}' | sort -u | tr '\n' ' ')
fi
suite=$(echo $failed | wc -w)
demo=$(ls $src/*_test.go 2>/dev/null | head -1)
dres_with="n/a"; dres_without="n/a"
if [ -n "$demo" ]; then
  pkg=$(grep -m1 '^package ' $demo | awk '{print $2}')
  case "$pkg" in
    whispertool|whispertool_test) d=. ;;
    cmd|cmd_test) d=cmd ;;
    compattest|compattest_test) d=internal/compattest ;;
    main|main_test) d=cmd/whispertool ;;
    *) d=. ;;
  esac
  cp $demo $d/zz_seed_demo_test.go
  tests=$(grep -o '^func Test[A-Za-z0-9_]*' $demo | sed 's/func //' | tr '\n' '|' | sed 's/|$//')
  extra=""
  grep -q "race" $src/NOTES.md 2>/dev/null && extra="-race"
  go test $extra -tags seededdemo,seeded_demo -vet=off -count=1 -run "^($tests)\$" ./$d >/tmp/wt/demo-with-$name.log 2>&1 && dres_with=pass || dres_with=fail
  git apply -R $src/patch.diff
  go test $extra -tags seededdemo,seeded_demo -vet=off -count=1 -run "^($tests)\$" ./$d >/tmp/wt/demo-without-$name.log 2>&1 && dres_without=pass || dres_without=fail
fi
cd /verif
git -C /repo worktree remove --force $W
echo "RESULT $name: failed_tests=[$failed] suite_failures_with_patch=$suite demo_with_patch=$dres_with demo_without_patch=$dres_without"
WIDTH=420 /verif/trial.sh $name $src/patch.diff ${TIER:-quick} "$@"
