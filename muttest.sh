#!/bin/bash
# developer aid: apply a patch (or a sed expression file) to /repo, run quick checks, restore /repo.
# usage: muttest.sh <patch.diff> <ID> [<ID>...]
set -u
patch=$1; shift
cd /repo || exit 2
if ! git diff --quiet; then echo "/repo has uncommitted changes"; exit 2; fi
if ! git apply "$patch"; then echo "patch does not apply"; exit 2; fi
trap 'git -C /repo checkout -- . ; git -C /repo clean -fdq' EXIT
if ! go build ./... ; then echo "MUTANT DOES NOT BUILD"; exit 2; fi
for id in "$@"; do
  out=$(cd /verif && ./check $id --tier ${TIER:-quick} 2>&1)
  rc=$?
  echo "== $id rc=$rc: $(echo "$out" | grep -m1 -A1 'VIOLATION\|^OK\|INCONCLUSIVE\|BUILD-FAILED' | tr '\n' ' ' | cut -c1-400)"
done
